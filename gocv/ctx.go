package main

// Query context: declarations, assumptions and obligations produced while a
// function under contract is executed symbolically.

import (
	"fmt"
	"go/token"
	"go/types"
	"math/big"
	"regexp"
	"sort"
	"strings"

	"golang.org/x/tools/go/ssa"
)

type Assume struct {
	declPos  int
	t        Term
	why      string
	tag      string // definition that a discharged helper lemma may replace
	groundAx bool   // ground instance of a heap axiom: only needed once something has been allocated
	heapAx   bool   // heap well-formedness axiom: only needed once something has been allocated
	frameAx  bool   // quantified allocation-frame axiom of a contract call: needed when a specification reads the heap under a quantifier
	optAx    bool   // ground instance that is rarely needed and sometimes derails the solver: left out in the first attempt
}

type Obligation struct {
	Name        string // stable name: pkg.Func#kind.label
	Kind        string // ensures, requires, nopanic, loopinv.init, loopinv.step, frame, assert, cover, ...
	Func        string
	Property    string
	Goal        Term // must be valid under the assumptions visible at (declPos, assumePos)
	declPos     int
	asmPos      int
	allocs      int
	quantHeap   bool
	Pos         token.Position
	Note        string
	DropTag     string // helper: the definition its lemma replaces in users
	Helper      bool   // auxiliary lemma: never a violation by itself
	noHelpers   bool
	CTI         *Obligation // lane loops: the failed invariant-step clause whose model gives a concrete lane input
	absMul      bool        // symbolic multiplications abstracted to an uninterpreted function
	noOptAx     bool        // ground map-value allocation instances left out as well
	Reach       Term        // path condition the goal is stated under
	splitOn     string      // extra assertion: one disjunct of the path condition (path splitting)
	expectFail  bool        // recorded as a known finding: decided with one bounded attempt
	noHeapAx    bool        // quantified heap axioms left out (first attempt; sound weakening)
	excludeTags map[string]bool
	Helpers     []*Obligation // lemmas assumed (when discharged) while deciding this obligation
	WantSat     bool          // cover / vacuity queries: expected answer is sat
	Ctx         *Ctx
	// result
	Verdict string // discharged, failed, undecided, trivial
	Solver  string
	Secs    float64
	Bytes   int
	Model   string
	Output  string
	// replay hints
	Inputs  map[string]Term // name -> term whose model value is an input
	Results map[string]Term // result index -> term (for replay)
}

type Ctx struct {
	W             *World
	intMode       bool
	idxSort       string
	decls         []string
	assumes       []Assume
	obls          []*Obligation
	n             int
	strLits       map[string]Term
	memSort       map[string]string // memory name -> array sort, declared lazily
	lastArgShape  map[string]*Val   // shape of the recorded arguments of extern interface calls (lastarg)
	memInit       map[string]Term   // initial array term per memory
	nextObj       int               // allocation counter (concrete roots >= birthBase)
	globals       map[*ssa.Global]Term
	notes         []string // imprecision notes (havocs, unknown calls)
	assumed       map[string]bool
	ufDecl        map[string]bool
	fn            string // function under verification (for obligation names)
	property      string
	usesQuant     bool
	sites         map[string]int // ordinal counters for obligation naming
	depthCap      int
	floatFP       bool // interpret float32/64 arithmetic with SMT FloatingPoint
	epochs        []epochInfo
	epochCache    map[string]Term
	defCache      map[string]string
	caseSuffix    string
	knownConst    map[string]string
	storeOf       map[string]storeRec
	frameRecs     map[string]frameRec
	boolCache     map[string]bool
	deadTags      map[string]bool
	copyRecs      map[string]copyRec
	mergeOf       map[string][]Term
	oldRefs       map[string]bool
	prune         bool // prune infeasible branches (case-split runs)
	baseArrays    map[string][]baseArr
	refStruct     map[string]Term // named reference -> its structural (mkref ...) form
	inQuant       int
	needQuantHeap bool
	defBody       map[string]string // define-fun name -> body
	defNames      map[string]bool   // names introduced by define-fun (not usable inside patterns: they expand)
	quantVars     [][2]string       // (name, sort) of the kept quantifiers being evaluated, outermost first
	quantLoads    [][]Term          // heap reads made while evaluating the body of each open quantifier (pattern candidates)
	trigSeen      map[string]bool
	boolDefs      map[string]string // define-fun name -> body, for Bool definitions (path conditions)
}

const birthBase = 1000000
const globalBase = 1000

func NewCtx(w *World, intMode bool) *Ctx {
	c := &Ctx{W: w, intMode: intMode, strLits: map[string]Term{}, memSort: map[string]string{},
		memInit: map[string]Term{}, globals: map[*ssa.Global]Term{}, assumed: map[string]bool{},
		ufDecl: map[string]bool{}, sites: map[string]int{}, depthCap: 8, epochCache: map[string]Term{}, defCache: map[string]string{}, baseArrays: map[string][]baseArr{}, refStruct: map[string]Term{}, storeOf: map[string]storeRec{}, frameRecs: map[string]frameRec{}, boolCache: map[string]bool{}, boolDefs: map[string]string{}, defNames: map[string]bool{}, defBody: map[string]string{}, trigSeen: map[string]bool{}, deadTags: map[string]bool{}, copyRecs: map[string]copyRec{}, mergeOf: map[string][]Term{}, oldRefs: map[string]bool{}, knownConst: map[string]string{}}
	if intMode {
		c.idxSort = SInt
	} else {
		c.idxSort = SBV(64)
	}
	return c
}

func (c *Ctx) fresh(prefix string) string {
	c.n++
	return fmt.Sprintf("%s!%d", sanitize(prefix), c.n)
}

func sanitize(s string) string {
	var sb strings.Builder
	for _, r := range s {
		switch {
		case r >= 'a' && r <= 'z', r >= 'A' && r <= 'Z', r >= '0' && r <= '9', r == '_', r == '.', r == '$':
			sb.WriteRune(r)
		default:
			sb.WriteByte('_')
		}
	}
	return sb.String()
}

// Def binds a term to a fresh name (sharing) unless it is already atomic.
func (c *Ctx) Def(prefix string, t Term) Term {
	if c.inQuant > 0 {
		return t // may mention a bound variable: must not be hoisted into a global definition
	}
	if t.IsConst() || !strings.ContainsAny(t.S, " (") {
		return t
	}
	if len(t.S) < 24 && !strings.Contains(t.S, "ite") {
		return t
	}
	key := t.Sort + "|" + t.S
	if n, ok := c.defCache[key]; ok {
		return Term{S: n, Sort: t.Sort}
	}
	n := c.fresh(prefix)
	c.defCache[key] = n
	c.defNames[n] = true
	c.defBody[n] = t.S
	if t.Sort == SRef {
		if _, _, ok := splitRef(t); ok {
			c.refStruct[n] = t
		}
		if c.oldRefs[t.S] {
			c.oldRefs[n] = true
		}
	}
	c.decls = append(c.decls, fmt.Sprintf("(define-fun %s () %s %s)", n, t.Sort, t.S))
	if t.Sort == SBool {
		c.boolDefs[n] = t.S
	}
	return Term{S: n, Sort: t.Sort}
}

// reachDisjuncts expands a path condition into the disjuncts it is (transitively) defined as,
// up to max leaves: proving a goal under each disjunct proves it under the condition.
func (c *Ctx) reachDisjuncts(cond Term, max int) []string {
	leaves := []string{cond.S}
	for changed := true; changed; {
		changed = false
		var next []string
		for i, l := range leaves {
			body := l
			if b, ok := c.boolDefs[l]; ok {
				body = b
			}
			parts := topOr(body)
			if len(parts) > 1 && len(next)+len(parts)+len(leaves)-i-1 <= max {
				next = append(next, parts...)
				changed = true
			} else {
				next = append(next, l)
			}
		}
		leaves = next
	}
	return leaves
}

// topOr splits "(or a b c)" into its arguments.
func topOr(s string) []string {
	if !strings.HasPrefix(s, "(or ") {
		return nil
	}
	body := s[4 : len(s)-1]
	var out []string
	depth, start := 0, 0
	for i := 0; i < len(body); i++ {
		switch body[i] {
		case '(':
			depth++
		case ')':
			depth--
		case ' ':
			if depth == 0 {
				if i > start {
					out = append(out, body[start:i])
				}
				start = i + 1
			}
		}
	}
	if start < len(body) {
		out = append(out, body[start:])
	}
	return out
}

// Fresh declares an unconstrained constant.
func (c *Ctx) Fresh(prefix, sortName string) Term {
	n := c.fresh(prefix)
	c.decls = append(c.decls, fmt.Sprintf("(declare-const %s %s)", n, sortName))
	return Term{S: n, Sort: sortName}
}

// UF declares (once) an uninterpreted function and returns an application.
func (c *Ctx) UF(name string, ret string, args ...Term) Term {
	name = sanitize(name)
	if !strings.HasPrefix(name, "G_") && !strings.HasPrefix(name, "isa.") {
		name = "uf." + name // keep clear of theory symbols such as str.len
	}
	if !c.ufDecl[name] {
		c.ufDecl[name] = true
		var as []string
		for _, a := range args {
			as = append(as, a.Sort)
		}
		c.decls = append(c.decls, fmt.Sprintf("(declare-fun %s (%s) %s)", name, strings.Join(as, " "), ret))
		if name == "uf.str.concat" {
			// concatenation is cancellative: x+y == x+z implies y == z (and symmetrically)
			c.assumes = append(c.assumes, Assume{declPos: len(c.decls), why: "string concatenation is left- and right-cancellative",
				t: raw("(forall ((a Str) (b Str) (d Str)) (! (=> (= (uf.str.concat a b) (uf.str.concat a d)) (= b d)) :pattern ((uf.str.concat a b) (uf.str.concat a d))))", SBool)})
			c.assumes = append(c.assumes, Assume{declPos: len(c.decls), why: "string concatenation is left- and right-cancellative",
				t: raw("(forall ((a Str) (b Str) (d Str)) (! (=> (= (uf.str.concat b a) (uf.str.concat d a)) (= b d)) :pattern ((uf.str.concat b a) (uf.str.concat d a))))", SBool)})
		}
	}
	if len(args) == 0 {
		return raw(name, ret)
	}
	return sexp(ret, name, args...)
}

// trigName: the instantiation-trigger predicate of a sort. Kept quantifiers of specifications carry
// the alternative pattern (gtrig x); asserting (gtrig t) for the index terms of the code and for
// skolem constants makes the solver instantiate them there, independently of how it normalises the
// arithmetic inside the heap-read patterns.
func trigName(sortName string) string {
	return "gtrig_" + sanitize(strings.NewReplacer("(", "", ")", "", " ", "_").Replace(sortName))
}

func (c *Ctx) addTrig(t Term) {
	if c.inQuant > 0 || t.Sort == SBool || t.Sort == "" {
		return
	}
	key := t.Sort + "|" + t.S
	if c.trigSeen[key] {
		return
	}
	c.trigSeen[key] = true
	g := c.UF(trigName(t.Sort), SBool, t)
	c.assumes = append(c.assumes, Assume{declPos: len(c.decls), why: "instantiation trigger", t: g})
}

func (c *Ctx) Raw(decl string) { c.decls = append(c.decls, decl) }

func (c *Ctx) Assume(cond, t Term, why string) {
	if cond.IsTrue() {
		c.recordKnown(t)
	}
	t = Implies(cond, t)
	if t.IsTrue() {
		return
	}
	c.assumes = append(c.assumes, Assume{declPos: len(c.decls), t: t, why: why})
}

func (c *Ctx) siteName(kind string) string {
	c.sites[kind]++
	return fmt.Sprintf("%s.%d", kind, c.sites[kind])
}

func (c *Ctx) Oblige(kind, label string, cond, goal Term, pos token.Position, note string) *Obligation {
	g := Implies(cond, goal)
	o := &Obligation{Name: c.fn + "#" + kind + "." + label + c.caseSuffix, Kind: kind, Func: c.fn, Property: c.property, Reach: cond,
		Goal: g, declPos: len(c.decls), asmPos: len(c.assumes), allocs: c.nextObj, quantHeap: c.needQuantHeap, Pos: pos, Note: note, Ctx: c}
	c.obls = append(c.obls, o)
	return o
}

// Cover registers a satisfiability (non-vacuity) query.
func (c *Ctx) Cover(label string, cond Term, pos token.Position) *Obligation {
	o := &Obligation{Name: c.fn + "#cover." + label + c.caseSuffix, Kind: "cover", Func: c.fn, Property: c.property,
		Goal: cond, declPos: len(c.decls), asmPos: len(c.assumes), allocs: c.nextObj, quantHeap: c.needQuantHeap, Pos: pos, WantSat: true, Ctx: c}
	c.obls = append(c.obls, o)
	return o
}

func (c *Ctx) note(format string, a ...interface{}) {
	s := fmt.Sprintf(format, a...)
	for _, n := range c.notes {
		if n == s {
			return
		}
	}
	c.notes = append(c.notes, s)
}

// Query renders the SMT-LIB text deciding an obligation.
func (o *Obligation) Query(withModel bool) string { return o.QueryF(withModel, false) }

func (o *Obligation) QueryF(withModel bool, dropQuant bool) string {
	c := o.Ctx
	var sb strings.Builder
	sb.WriteString("(set-option :produce-models true)\n")
	sb.WriteString("(set-logic ALL)\n")
	sb.WriteString(smtPrelude(c.idxSort, o.Name))
	sb.WriteString(mulPrelude(o.absMul))
	// string literals are pairwise distinct
	for _, d := range c.decls[:o.declPos] {
		sb.WriteString(d)
		sb.WriteByte('\n')
	}
	drop := map[string]bool{}
	for _, h := range o.Helpers {
		if h.Verdict == "discharged" && h.DropTag != "" && !o.noHelpers {
			drop[h.DropTag] = true
		}
	}
	for _, a := range c.assumes[:o.asmPos] {
		if a.declPos > o.declPos {
			continue
		}
		if a.tag != "" && (drop[a.tag] || o.excludeTags[a.tag] || c.deadTags[a.tag]) {
			continue
		}
		if a.optAx && o.noHeapAx && o.noOptAx {
			continue
		}
		if a.frameAx && !o.quantHeap {
			continue
		}
		if a.heapAx && (o.allocs == 0 || !o.quantHeap || o.noHeapAx) {
			continue
		}
		if a.groundAx && o.allocs == 0 {
			continue
		}
		if dropQuant && (strings.Contains(a.t.S, "(forall ") || strings.Contains(a.t.S, "(exists ")) {
			continue
		}
		sb.WriteString("(assert " + a.t.S + ")\n")
	}
	for _, h := range o.Helpers {
		if h.Verdict == "discharged" && !o.noHelpers {
			sb.WriteString("(assert " + h.Goal.S + ") ; lemma " + h.Name + "\n")
		}
	}
	if o.splitOn != "" {
		sb.WriteString("(assert " + o.splitOn + ")\n")
	}
	if o.WantSat {
		sb.WriteString("(assert " + o.Goal.S + ")\n")
	} else {
		sb.WriteString("(assert (not " + o.Goal.S + "))\n")
	}
	sb.WriteString("(check-sat)\n")
	if withModel {
		if len(o.Inputs) > 0 {
			var names []string
			for k := range o.Inputs {
				names = append(names, k)
			}
			sort.Strings(names)
			var ts []string
			for _, k := range names {
				ts = append(ts, o.Inputs[k].S)
			}
			sb.WriteString("(get-value (" + strings.Join(ts, " ") + "))\n")
		} else {
			sb.WriteString("(get-model)\n")
		}
	}
	return sb.String()
}

// ---- sorts of Go types -------------------------------------------------------

func (c *Ctx) intSort(w int) string {
	if c.intMode {
		return SInt
	}
	return SBV(w)
}

func basicWidth(b *types.Basic) (w int, signed bool, ok bool) {
	switch b.Kind() {
	case types.Int8:
		return 8, true, true
	case types.Int16:
		return 16, true, true
	case types.Int32:
		return 32, true, true
	case types.Int64, types.Int, types.UntypedInt, types.UntypedRune:
		return 64, true, true
	case types.Uint8:
		return 8, false, true
	case types.Uint16:
		return 16, false, true
	case types.Uint32:
		return 32, false, true
	case types.Uint64, types.Uint, types.Uintptr:
		return 64, false, true
	}
	return 0, false, false
}

func isFloat(t types.Type) (int, bool) {
	if b, ok := t.Underlying().(*types.Basic); ok {
		switch b.Kind() {
		case types.Float32:
			return 32, true
		case types.Float64, types.UntypedFloat:
			return 64, true
		}
	}
	return 0, false
}

func intInfo(t types.Type) (w int, signed bool, ok bool) {
	if b, isB := t.Underlying().(*types.Basic); isB {
		return basicWidth(b)
	}
	return 0, false, false
}

// scalarSort gives the SMT sort of a scalar Go type, or "" if t is composite.
func (c *Ctx) scalarSort(t types.Type) string {
	switch u := t.Underlying().(type) {
	case *types.Basic:
		if w, _, ok := basicWidth(u); ok {
			return c.intSort(w)
		}
		switch u.Kind() {
		case types.Bool, types.UntypedBool:
			return SBool
		case types.Float32:
			return SBV(32)
		case types.Float64, types.UntypedFloat:
			return SBV(64)
		case types.String, types.UntypedString:
			return SStr
		case types.UnsafePointer, types.UntypedNil:
			return SRef
		}
	case *types.Pointer, *types.Map, *types.Chan, *types.Signature:
		return SRef
	}
	return ""
}

var reByte = regexp.MustCompile(`\bbyte\b`)
var reRune = regexp.MustCompile(`\brune\b`)

// typeKey names the memory of a cell type. byte/uint8 and rune/int32 are the
// same type in Go and must share a memory.
func typeKey(t types.Type) string {
	s := types.TypeString(t, func(p *types.Package) string { return p.Name() })
	s = reByte.ReplaceAllString(s, "uint8")
	s = reRune.ReplaceAllString(s, "int32")
	return sanitize(s)
}

// feasible asks the solvers whether a path condition is satisfiable under the
// assumptions made so far. Used only to prune dead code before inlining large
// callees; "unknown" counts as feasible.
func (c *Ctx) feasible(reach Term) bool {
	if reach.IsFalse() {
		return false
	}
	if reach.IsTrue() {
		return true
	}
	o := &Obligation{Name: c.fn + "#feasible", Goal: reach, declPos: len(c.decls), asmPos: len(c.assumes), allocs: c.nextObj, WantSat: true, Ctx: c}
	q := o.QueryF(false, true)
	v := decide(q, 2, false)
	c.W.stat(func() { c.W.stats.feasQueries++ })
	if v.Answer == "unsat" {
		c.W.stat(func() { c.W.stats.pruned++ })
		return false
	}
	return true
}

// recordKnown remembers unconditional equalities term = literal, so that
// non-linear operations on such terms can be built with the literal.
func (c *Ctx) recordKnown(t Term) {
	if strings.HasPrefix(t.S, "(and ") {
		for _, cj := range splitAnd(t) {
			c.recordKnown(cj)
		}
		return
	}
	if !strings.HasPrefix(t.S, "(= ") {
		return
	}
	body := t.S[3 : len(t.S)-1]
	depth := 0
	for i, ch := range body {
		switch ch {
		case '(':
			depth++
		case ')':
			depth--
		case ' ':
			if depth == 0 {
				a, b := body[:i], body[i+1:]
				isNum := func(x string) bool {
					if x == "" {
						return false
					}
					for _, r := range x {
						if r < '0' || r > '9' {
							return false
						}
					}
					return true
				}
				a, b = c.expandDefs(a, 0), c.expandDefs(b, 0)
				if strings.HasPrefix(b, "(_ bv") && !strings.HasPrefix(a, "(_ bv") {
					c.knownConst[a] = b
				} else if strings.HasPrefix(a, "(_ bv") && !strings.HasPrefix(b, "(_ bv") {
					c.knownConst[b] = a
				} else if isNum(b) && !isNum(a) {
					c.knownConst[a] = b // mathematical-integer mode
				} else if isNum(a) && !isNum(b) {
					c.knownConst[b] = a
				}
				return
			}
		}
	}
}

// expandDefs replaces define-fun names by their bodies (for syntactic comparison of terms).
func (c *Ctx) expandDefs(s string, depth int) string {
	if depth > 6 {
		return s
	}
	var sb strings.Builder
	changed := false
	i := 0
	for i < len(s) {
		ch := s[i]
		if ch == '(' || ch == ')' || ch == ' ' {
			sb.WriteByte(ch)
			i++
			continue
		}
		j := i
		for j < len(s) && s[j] != '(' && s[j] != ')' && s[j] != ' ' {
			j++
		}
		tok := s[i:j]
		if body, ok := c.defBody[tok]; ok {
			sb.WriteString(body)
			changed = true
		} else {
			sb.WriteString(tok)
		}
		i = j
	}
	if !changed {
		return s
	}
	return c.expandDefs(sb.String(), depth+1)
}

func (c *Ctx) known(t Term) Term {
	if t.C != nil {
		return t
	}
	lit, ok := c.knownConst[t.S]
	if !ok {
		// the fact may be stated on the expanded form of a term built from definitions
		if ex := c.expandDefs(t.S, 0); ex != t.S {
			lit, ok = c.knownConst[ex]
		}
	}
	if ok {
		if t.Sort == SInt {
			if n, ok := new(big.Int).SetString(lit, 10); ok {
				return IntLit(n)
			}
			return t
		}
		f := strings.Fields(strings.Trim(lit, "()"))
		if len(f) == 3 {
			n, ok1 := new(big.Int).SetString(strings.TrimPrefix(f[1], "bv"), 10)
			var w int
			fmt.Sscanf(f[2], "%d", &w)
			if ok1 && SBV(w) == t.Sort {
				return BVLit(n, w)
			}
		}
	}
	return t
}
