package main

import (
	"encoding/json"
	"flag"
	"fmt"
	"os"
	"path/filepath"
	"regexp"
	"sort"
	"strconv"
	"strings"
	"sync"
	"time"
)

type KnownFinding struct {
	Property   string
	Obligation string // exact obligation name
	Demo       string // "pkgdir|file under /verif/findings|TestName": a demonstration on the real code (run in the thorough tier; it fails while the defect is present)
	Scope      bool   // not a finding of this property: an input class outside the claim (the deviation is recorded under another property)
	LaneWhen   string // optional per-lane input class (vector handlers): lanes inside it are exempt from the clauses
	When       string // optional input class (spec expression): the finding is known only inside it
	Case       string // "@known<k>" suffix the obligation carries when When is set
	What       string
}

func loadKnownFindings(path string) (known []KnownFinding, fixed []string) {
	data, err := os.ReadFile(path)
	if err != nil {
		return nil, nil
	}
	for _, ln := range strings.Split(string(data), "\n") {
		ln = strings.TrimSpace(ln)
		if ln == "" || strings.HasPrefix(ln, "#") {
			continue
		}
		if strings.HasPrefix(ln, "fixed:") {
			fixed = append(fixed, ln)
			continue
		}
		// finding: property=<id> obligation=<name> :: <what>
		// scope: property=<id> obligation=<name> lanewhen={...} :: <why these lanes are outside the claim>
		isScope := strings.HasPrefix(ln, "scope:")
		if !strings.HasPrefix(ln, "finding:") && !isScope {
			continue
		}
		var k KnownFinding
		k.Scope = isScope
		rest := strings.TrimSpace(strings.TrimPrefix(strings.TrimPrefix(ln, "finding:"), "scope:"))
		parts := strings.SplitN(rest, "::", 2)
		if len(parts) == 2 {
			k.What = strings.TrimSpace(parts[1])
		}
		head := parts[0]
		if i := strings.Index(head, "demo={"); i >= 0 {
			j := strings.Index(head[i:], "}") + i
			k.Demo = strings.TrimSpace(head[i+6 : j])
			head = head[:i] + head[j+1:]
		}
		if i := strings.Index(head, "lanewhen={"); i >= 0 {
			j := strings.Index(head[i:], "}") + i
			k.LaneWhen = strings.TrimSpace(head[i+10 : j])
			head = head[:i] + head[j+1:]
		}
		if i := strings.Index(head, "when={"); i >= 0 {
			j := strings.LastIndex(head, "}")
			k.When = strings.TrimSpace(head[i+6 : j])
			head = head[:i] + head[j+1:]
		}
		for _, f := range strings.Fields(head) {
			if strings.HasPrefix(f, "property=") {
				k.Property = strings.TrimPrefix(f, "property=")
			}
			if strings.HasPrefix(f, "obligation=") {
				k.Obligation = strings.TrimPrefix(f, "obligation=")
			}
		}
		known = append(known, k)
	}
	return
}

func (k KnownFinding) matches(prop, name string) bool {
	if k.Property != prop || k.LaneWhen != "" {
		return false // per-lane classes exempt lanes inside the proof; they never excuse a failed obligation
	}
	return k.Obligation+k.Case == name
}

// knownCaseSplit: the distinct `when` classes recorded for each function; entry k of a
// function's list is case "known<k>" of its verification, everything else is case "rest".
func knownCaseSplit(known []KnownFinding) map[string][]string {
	out := map[string][]string{}
	for i := range known {
		k := &known[i]
		if k.When == "" {
			continue
		}
		fn := k.Obligation
		if j := strings.Index(fn, "#"); j >= 0 {
			fn = fn[:j]
		}
		idx := -1
		for n, w := range out[fn] {
			if w == k.When {
				idx = n
			}
		}
		if idx < 0 {
			out[fn] = append(out[fn], k.When)
			idx = len(out[fn]) - 1
		}
		k.Case = fmt.Sprintf("@known%d", idx)
	}
	return out
}

type oblRecord struct {
	Name    string  `json:"name"`
	Kind    string  `json:"kind"`
	Func    string  `json:"function"`
	Verdict string  `json:"verdict"`
	Solver  string  `json:"backend"`
	Secs    float64 `json:"solver_s"`
	Bytes   int     `json:"query_bytes"`
	Note    string  `json:"note,omitempty"`
}

func propList(s string) []string {
	var out []string
	for _, p := range regexp.MustCompile(`[,\s]+`).Split(strings.TrimSpace(s), -1) {
		if p != "" {
			out = append(out, p)
		}
	}
	return out
}

// externScope: an extern declared in a package's contract file holds for the functions of that
// package only (its scope is the package directory relative to the repository); declarations in
// /verif/spec hold everywhere (empty scope).
func externScope(file, repo string) string {
	if !strings.HasPrefix(file, repo+"/") {
		return ""
	}
	return filepath.Dir(strings.TrimPrefix(file, repo+"/"))
}

func hasProp(ct *Contract, id string) bool {
	for _, p := range propList(ct.Property) {
		if p == id {
			return true
		}
	}
	return false
}

func main() {
	if len(os.Args) < 2 {
		fmt.Fprintln(os.Stderr, "usage: gocv check|dump ...")
		os.Exit(2)
	}
	switch os.Args[1] {
	case "check":
		os.Exit(cmdCheck(os.Args[2:]))
	case "dump":
		os.Exit(cmdDump(os.Args[2:]))
	case "selftest":
		os.Exit(cmdSelftest(os.Args[2:]))
	}
	fmt.Fprintln(os.Stderr, "unknown command")
	os.Exit(2)
}

type checkOpts struct {
	prop, tier, repo, verif string
	only                    string
	timeout                 int
	quiet                   bool
	overlay                 map[string][]byte
	overlayFiles            map[string]string // path -> replacement file (for go test -overlay)
	noEvidence              bool
}

type checkResult struct {
	violations []string
	lines      []string
	failedObls []*Obligation
	allObls    []*Obligation
	known      int
	exit       int
}

// genBudget: wall-clock budget for generating one function's verification conditions.
var genBudget = 600 * time.Second

func cmdCheck(args []string) int {
	fs := flag.NewFlagSet("check", flag.ExitOnError)
	var o checkOpts
	fs.StringVar(&o.prop, "property", "", "property id")
	fs.StringVar(&o.tier, "tier", "quick", "quick|thorough")
	fs.StringVar(&o.repo, "repo", "/repo", "repository")
	fs.StringVar(&o.verif, "verif", "/verif", "verif dir")
	fs.StringVar(&o.only, "only", "", "restrict to functions matching this substring")
	fs.IntVar(&o.timeout, "timeout", 0, "per-obligation solver timeout (s)")
	nocache := fs.Bool("nocache", false, "do not use the verdict cache")
	fs.Parse(args)
	if *nocache {
		useCache = false
	}
	cacheDir = filepath.Join(o.verif, ".cache")
	// A first pass decides everything; if it reports violations the check is repeated once with
	// doubled time budgets (verdicts of the first pass are cached), so that a solver or Houdini
	// time-out under machine load is not reported as a violation. Only the final pass prints.
	o.quiet = true
	r := runCheck(o)
	if len(r.violations) == 0 {
		for _, l := range r.lines {
			fmt.Println(l)
		}
		return r.exit
	}
	if len(r.violations) > 6 {
		// clearly broken: report the first pass as it is
		for _, l := range r.lines {
			fmt.Println(l)
		}
		return r.exit
	}
	o.quiet = false
	timeScale = 2
	if o.timeout == 0 {
		o.timeout = 10
		if o.tier == "thorough" {
			o.timeout = 120
		}
	}
	o.timeout *= 2
	r = runCheck(o)
	return r.exit
}

// timeScale multiplies the inner time budgets (Houdini filtering) on the second pass.
var timeScale = 1

func runCheck(o checkOpts) *checkResult {
	t0 := time.Now()
	res := &checkResult{}
	if o.timeout == 0 {
		o.timeout = 10
		if o.tier == "thorough" {
			o.timeout = 120
		}
	}
	seed := 0
	if s := os.Getenv("VERIF_SEED"); s != "" {
		seed, _ = strconv.Atoi(s)
	}
	say := func(format string, a ...interface{}) {
		res.lines = append(res.lines, fmt.Sprintf(format, a...))
		if !o.quiet {
			fmt.Printf(format+"\n", a...)
		}
	}
	violation := func(replay, suffix string) {
		line := fmt.Sprintf("VIOLATION property=%s replay=%s", o.prop, replay)
		if suffix != "" {
			line += " " + suffix
		}
		res.violations = append(res.violations, line)
		say("%s", line)
	}
	replayDir := filepath.Join(o.verif, "replay", o.prop)
	if o.only == "" {
		os.RemoveAll(replayDir)
	}
	os.MkdirAll(replayDir, 0o755)
	writeReplay := func(name string, payload map[string]interface{}) string {
		p := filepath.Join(replayDir, sanitize(name)+".json")
		data, _ := json.MarshalIndent(payload, "", " ")
		os.WriteFile(p, data, 0o644)
		return p
	}

	all, specs, err := loadContractsOverlay(o.repo, o.overlay)
	if err != nil {
		p := writeReplay("contract-parse", map[string]interface{}{"obligation": "contract files parse", "error": err.Error()})
		violation(p, "no-failing-input-found")
		res.exit = 1
		return res
	}
	// shared spec files
	gs, _ := filepath.Glob(filepath.Join(o.verif, "spec", "*.gspec"))
	sort.Strings(gs)
	for _, g := range gs {
		_, sp, err := parseContractFile(g, "")
		if err != nil {
			fmt.Fprintln(os.Stderr, "spec error:", err)
			res.exit = 2
			return res
		}
		specs = append(specs, sp...)
	}
	var mine []*Contract
	pkgSet := map[string]bool{}
	for _, ct := range all {
		pkgSet[ct.PkgPath] = true
		if hasProp(ct, o.prop) && (o.only == "" || strings.Contains(ct.FullName(), o.only)) {
			mine = append(mine, ct)
		}
	}
	w := NewWorld(o.repo)
	for _, sf := range specs {
		if strings.HasPrefix(sf.Name, "extern:") {
			key := externScope(sf.File, o.repo) + "|" + strings.TrimPrefix(sf.Name, "extern:")
			if sf.Func != "" {
				key = externScope(sf.File, o.repo) + "#" + sf.Func + "|" + strings.TrimPrefix(sf.Name, "extern:")
			}
			w.externFrames[key] = sf.Reason
			if sf.Lemma {
				w.externFresh[key] = true
			}
			if len(sf.PTypes) == 1 && sf.PTypes[0] == "pure" {
				w.externPure[key] = true
			}
			if len(sf.PTypes) == 1 && sf.PTypes[0] == "old" {
				w.externOld[key] = true
			}
			if len(sf.PTypes) == 1 && sf.PTypes[0] == "havoc" {
				w.externHavoc[key] = true
			}
			if len(sf.PTypes) == 1 && sf.PTypes[0] == "writes-args" {
				w.externHavoc[key+"#args"] = true
			}
			continue
		}
		w.specFns[sf.Name] = sf
	}
	// load only the packages of this property's contracts (plus those of contracts they may call)
	need := map[string]bool{}
	for _, ct := range mine {
		need[ct.PkgPath] = true
	}
	var pkgPaths []string
	for p := range need {
		pkgPaths = append(pkgPaths, p)
	}
	sort.Strings(pkgPaths)
	if len(pkgPaths) == 0 {
		fmt.Fprintf(os.Stderr, "no contracts for property %s\n", o.prop)
		res.exit = 2
		return res
	}
	tl := time.Now()
	if err := w.Load(pkgPaths, o.overlay); err != nil {
		p := writeReplay("load", map[string]interface{}{"obligation": "packages under contract type-check", "error": err.Error()})
		violation(p, "no-failing-input-found")
		res.exit = 1
		return res
	}
	w.loadSecs = time.Since(tl).Seconds()
	// bind every contract whose package is loaded (callees use contracts too)
	var loaded []*Contract
	for _, ct := range all {
		if w.pkgs[ct.PkgPath] != nil {
			loaded = append(loaded, ct)
		}
	}
	w.contracts = loaded
	missing := w.bind(loaded)
	for _, m := range missing {
		if hasProp(m, o.prop) {
			p := writeReplay("missing."+m.FullName(), map[string]interface{}{"obligation": m.FullName() + "#target", "reason": "contract-target-missing",
				"detail": "the function named by the contract no longer exists in " + m.PkgPath})
			violation(p, "no-failing-input-found")
		}
	}
	installPropertyHooks(w, o.prop)
	known, fixedLines := loadKnownFindings(filepath.Join(o.verif, "known_findings.txt"))
	_ = fixedLines
	w.knownCases = knownCaseSplit(known)
	w.knownLane = map[string][]string{}
	for _, k := range known {
		if k.LaneWhen != "" && k.Property == o.prop {
			fn := k.Obligation
			if j := strings.Index(fn, "#"); j >= 0 {
				fn = fn[:j]
			}
			w.knownLane[fn] = append(w.knownLane[fn], k.LaneWhen)
		}
	}

	var results []*FuncResult
	var obls []*Obligation
	// obligations are generated per function in parallel (each has its own context)
	resArr := make([]*FuncResult, len(mine))
	var gwg sync.WaitGroup
	sem := make(chan struct{}, 12)
	for i, ct := range mine {
		if ct.Fn == nil {
			continue
		}
		if ct.Trusted != "" {
			w.noteAssumed("trusted contract (body not verified): " + ct.FullName() + " — " + ct.Trusted)
			continue
		}
		gwg.Add(1)
		go func(i int, ct *Contract) {
			defer gwg.Done()
			sem <- struct{}{}
			defer func() { <-sem }()
			// generation watchdog: a function whose verification conditions cannot be generated within the
			// budget (e.g. a constant-trip loop without invariant that unrolls into an exponential term) is
			// reported as refused instead of hanging the check
			done := make(chan *FuncResult, 1)
			go func() { done <- w.verifyFunction(ct) }()
			select {
			case r := <-done:
				resArr[i] = r
			case <-time.After(genBudget):
				resArr[i] = &FuncResult{Contract: ct, Err: fmt.Sprintf("outside-subset: generating the verification conditions took more than %s", genBudget)}
			}
		}(i, ct)
	}
	gwg.Wait()
	for i, ct := range mine {
		r := resArr[i]
		if r == nil {
			continue
		}
		results = append(results, r)
		if r.Err != "" {
			p := writeReplay("refused."+ct.FullName(), map[string]interface{}{"obligation": ct.FullName() + "#generate", "reason": r.Err})
			violation(p, "no-failing-input-found")
			continue
		}
		if os.Getenv("GOCV_DEBUG") != "" {
			for _, n := range r.Ctx.notes {
				fmt.Fprintln(os.Stderr, "note:", ct.FullName(), n)
			}
		}
		for _, ob := range r.Ctx.obls {
			ob.Property = o.prop
		}
		obls = append(obls, r.Ctx.obls...)
		for _, ob := range r.extra {
			ob.Property = o.prop
		}
		obls = append(obls, r.extra...)
	}
	extra := propertyObligations(w, o, mine)
	obls = append(obls, extra...)

	genSecs := time.Since(t0).Seconds() - w.loadSecs
	ts := time.Now()
	// obligations recorded as known findings are expected not to discharge: one bounded attempt, no retries
	for _, ob := range obls {
		for _, k := range known {
			if k.matches(o.prop, ob.Name) {
				ob.expectFail = true
			}
		}
	}
	solveAll(obls, o.timeout, 12)
	solveSecs := time.Since(ts).Seconds()
	// retry undecided once with the thorough timeout before reporting
	var undec []*Obligation
	for _, ob := range obls {
		if ob.Verdict == "undecided" && !ob.WantSat && !ob.Helper && !ob.expectFail {
			undec = append(undec, ob)
		}
	}
	if len(undec) > 8 {
		// many undecided obligations: the code no longer matches its contracts; the long retry would only cost time
		undec = undec[:8]
	}
	if len(undec) > 0 && o.timeout < 90 {
		// few, long queries: less parallelism so that they do not starve each other
		solveAll(undec, 90*timeScale, 6)
	}
	res.allObls = obls

	nProof, nDis, nCover := 0, 0, 0
	var recs []oblRecord
	var samples []interface{}
	knownHit := map[string]bool{}
	nLaneKnown := 0
	var knownReplayed []interface{}
	nHelper := 0
	for _, ob := range obls {
		if ob.Helper {
			nHelper++
			recs = append(recs, oblRecord{Name: ob.Name, Kind: "helper-lemma", Func: ob.Func, Verdict: ob.Verdict, Solver: ob.Solver, Secs: ob.Secs, Bytes: ob.Bytes, Note: ob.Note})
			continue
		}
		rec := oblRecord{Name: ob.Name, Kind: ob.Kind, Func: ob.Func, Verdict: ob.Verdict, Solver: ob.Solver, Secs: ob.Secs, Bytes: ob.Bytes, Note: ob.Note}
		if ob.WantSat {
			nCover++
			if ob.Verdict == "failed" {
				p := writeReplay(ob.Name, map[string]interface{}{"obligation": ob.Name, "reason": "vacuous: precondition or path unsatisfiable", "solver_output": ob.Output})
				violation(p, "no-failing-input-found")
			}
			recs = append(recs, rec)
			continue
		}
		nProof++
		switch ob.Verdict {
		case "discharged":
			nDis++
		default:
			isKnown := false
			for _, k := range known {
				if k.matches(o.prop, ob.Name) {
					isKnown = true
					if !knownHit[ob.Name] {
						say("KNOWN-FINDING: property=%s %s :: %s", o.prop, ob.Name, k.What)
					}
					knownHit[ob.Name] = true
					rec.Verdict = "known-finding"
					if o.tier == "thorough" && k.Demo != "" {
						if parts := strings.Split(k.Demo, "|"); len(parts) == 3 {
							src, err := os.ReadFile(filepath.Join(o.verif, "findings", parts[1]))
							if err == nil {
								out, _ := runOverlayTestNamed(o, filepath.Join(o.repo, parts[0]), string(src), ob.Name, parts[2])
								reproduced := strings.Contains(out, "--- FAIL") && !strings.Contains(out, "[build failed]")
								rec.Note = fmt.Sprintf("known finding demonstrated on the real code (%s fails while the defect is present): reproduced=%v", parts[2], reproduced)
								knownReplayed = append(knownReplayed, map[string]interface{}{"obligation": ob.Name, "reproduced": reproduced, "demo": k.Demo, "output": trunc(out, 1500)})
							}
						}
					} else if o.tier == "thorough" && ob.Verdict == "failed" && ob.Model != "" {
						if rp := tryReplay(w, o, ob); rp != nil {
							rec.Note = fmt.Sprintf("known finding replayed on the real code: reproduced=%v %s", rp.Reproduced, rp.Reason)
							knownReplayed = append(knownReplayed, map[string]interface{}{"obligation": ob.Name, "reproduced": rp.Reproduced, "reason": rp.Reason, "inputs": rp.Inputs, "observed": rp.Observed})
						}
					}
				}
			}
			if !isKnown {
				res.failedObls = append(res.failedObls, ob)
			}
		}
		recs = append(recs, rec)
		if len(samples) < 3 && ob.Verdict == "discharged" && ob.Solver != "folded" {
			samples = append(samples, map[string]interface{}{"obligation": ob.Name, "goal_smt": trunc(ob.Goal.S, 600), "backend": ob.Solver})
		}
	}
	var scopeNotes []string
	for _, k := range known {
		if k.LaneWhen == "" || k.Property != o.prop {
			continue
		}
		fn := k.Obligation
		if j := strings.Index(fn, "#"); j >= 0 {
			fn = fn[:j]
		}
		for _, ct := range mine {
			if ct.FullName() == fn && !knownHit[k.Obligation+"|"+k.LaneWhen] {
				if k.Scope {
					scopeNotes = append(scopeNotes, fmt.Sprintf("claim scope: %s lanes{%s} are outside the claim: %s", k.Obligation, k.LaneWhen, k.What))
					continue
				}
				knownHit[k.Obligation+"|"+k.LaneWhen] = true
				nLaneKnown++
				say("KNOWN-FINDING: property=%s %s lanes{%s} :: %s", o.prop, k.Obligation, k.LaneWhen, k.What)
			}
		}
	}
	res.known = len(knownHit)
	for _, n := range scopeNotes {
		w.noteAssumed(n)
	}
	for _, ob := range res.failedObls {
		payload := map[string]interface{}{"obligation": ob.Name, "kind": ob.Kind, "function": ob.Func, "position": ob.Pos.String(),
			"note": ob.Note, "verdict": ob.Verdict, "solver": ob.Solver, "solver_output": ob.Output}
		suffix := "no-failing-input-found"
		if ob.Verdict == "failed" && ob.Model != "" && len(ob.Inputs) > 0 {
			mv := parseModel(ob.Model)
			lab := map[string]string{}
			for k, t := range ob.Inputs {
				if v, ok := mv[t.S]; ok {
					lab[k] = v
				} else if t.IsConst() {
					lab[k] = t.S
				}
			}
			payload["model"] = lab
		}
		if ob.Verdict == "failed" && ob.Model != "" {
			rp := tryReplay(w, o, ob)
			payload["replay"] = rp
			if rp != nil && rp.Reproduced {
				suffix = ""
			}
		}
		if ob.Verdict == "undecided" {
			payload["reason"] = "undecided"
		}
		p := writeReplay(ob.Name, payload)
		violation(p, suffix)
	}
	// obligation-count guard
	if exp := expectedCount(o.verif, o.prop); exp > 0 && nProof < exp && o.only == "" {
		p := writeReplay("obligation-count", map[string]interface{}{"obligation": "obligation count", "expected_at_least": exp, "generated": nProof})
		violation(p, "no-failing-input-found")
	}
	if len(res.violations) > 0 {
		res.exit = 1
	}
	if !o.noEvidence && o.only == "" {
		writeEvidence(w, o, seed, recs, samples, nProof-(len(knownHit)-nLaneKnown), nDis, nCover, len(res.violations), len(knownHit), time.Since(t0).Seconds(), solveSecs, mine, results, knownReplayed)
	}
	say("property %s: %d obligations, %d discharged, %d known findings, %d cover checks, %d violations, %.1fs (load %.1fs, gen %.1fs, solve %.1fs)",
		o.prop, nProof, nDis, len(knownHit), nCover, len(res.violations), time.Since(t0).Seconds(), w.loadSecs, genSecs, solveSecs)
	return res
}

func expectedCount(verif, prop string) int {
	data, err := os.ReadFile(filepath.Join(verif, "expected_obligations.json"))
	if err != nil {
		return 0
	}
	m := map[string]int{}
	json.Unmarshal(data, &m)
	return m[prop]
}

func writeEvidence(w *World, o checkOpts, seed int, recs []oblRecord, samples []interface{}, nProof, nDis, nCover, nViol, nKnown int,
	wall, solveSecs float64, mine []*Contract, results []*FuncResult, knownReplayed []interface{}) {
	var fns []string
	notes := map[string]bool{}
	for _, ct := range mine {
		fns = append(fns, ct.FullName())
	}
	for _, r := range results {
		if r.Ctx == nil {
			continue
		}
		for _, n := range r.Ctx.notes {
			notes[r.Contract.FullName()+": "+n] = true
		}
	}
	sort.Strings(fns)
	trusted := []string{
		"go/packages + go/types + go/ssa (golang.org/x/tools v0.29.0): the SSA form is taken as the meaning of the source",
		"gocv VC generator (this repository's /verif/gocv): mitigated by the must-fail selftest corpus and replay",
		"SMT solvers z3 5.1.0 (z3-new), z3 4.8.12, cvc5 1.0.x",
		"partial correctness: postconditions are proved for executions that do not panic unless the contract says nopanic; termination only where a decreases clause is given",
		"sequential execution (no goroutine interleaving inside a function under contract)",
	}
	assumptions := append([]string{}, sortedKeys(w.assumedSet)...)
	assumptions = append(assumptions, sortedKeys(notes)...)
	if len(samples) == 0 {
		samples = append(samples, map[string]interface{}{"note": "no solver-discharged obligation to sample"})
	}
	ev := map[string]interface{}{
		"property_id": o.prop, "tier": o.tier, "seed": seed, "level": "proof", "wall_s": wall, "violations": nViol,
		"assumptions": assumptions,
		"coverage": map[string]interface{}{
			"obligations": nProof, "discharged": nDis, "known_findings": nKnown, "cover_checks": nCover,
			"checker_cmd":  fmt.Sprintf("/verif/bin/gocv check -property %s -tier %s", o.prop, o.tier),
			"trusted_base": trusted, "samples": samples,
			"functions_under_contract": fns, "functions_inlined": sortedKeys(w.inlined), "callee_contracts_used": sortedKeys(w.ctUses),
			"loops_unrolled": w.stats.unrolled, "loops_cut_at_invariant": w.stats.cut,
			"solver_wall_s": solveSecs, "load_s": w.loadSecs, "obligation_records": recs,
			"arithmetic":  "fixed-width bit-vectors with Go wrap-around unless the contract says `arith int` (then mathematical integers with an overflow obligation on every + - *)",
			"explanation": "each obligation is an SMT query generated from the go/ssa form of the function named, under its contract; unsat = discharged",
		},
	}
	if len(knownReplayed) > 0 {
		ev["coverage"].(map[string]interface{})["known_findings_replayed"] = knownReplayed
	}
	extendEvidence(w, o, ev)
	os.MkdirAll(filepath.Join(o.verif, "evidence"), 0o755)
	data, _ := json.MarshalIndent(ev, "", " ")
	os.WriteFile(filepath.Join(o.verif, "evidence", o.prop+".json"), data, 0o644)
}

func cmdDump(args []string) int {
	fs := flag.NewFlagSet("dump", flag.ExitOnError)
	repo := fs.String("repo", "/repo", "")
	fn := fs.String("func", "", "contract full name substring")
	obl := fs.String("obl", "", "obligation substring")
	prop := fs.String("property", "", "")
	fs.Parse(args)
	all, specs, err := loadContracts(*repo)
	if err != nil {
		fmt.Println(err)
		return 1
	}
	gs, _ := filepath.Glob("/verif/spec/*.gspec")
	for _, g := range gs {
		_, sp, _ := parseContractFile(g, "")
		specs = append(specs, sp...)
	}
	w := NewWorld(*repo)
	for _, sf := range specs {
		if strings.HasPrefix(sf.Name, "extern:") {
			key := externScope(sf.File, *repo) + "|" + strings.TrimPrefix(sf.Name, "extern:")
			if sf.Func != "" {
				key = externScope(sf.File, *repo) + "#" + sf.Func + "|" + strings.TrimPrefix(sf.Name, "extern:")
			}
			w.externFrames[key] = sf.Reason
			if sf.Lemma {
				w.externFresh[key] = true
			}
			if len(sf.PTypes) == 1 && sf.PTypes[0] == "pure" {
				w.externPure[key] = true
			}
			if len(sf.PTypes) == 1 && sf.PTypes[0] == "old" {
				w.externOld[key] = true
			}
			if len(sf.PTypes) == 1 && sf.PTypes[0] == "havoc" {
				w.externHavoc[key] = true
			}
			if len(sf.PTypes) == 1 && sf.PTypes[0] == "writes-args" {
				w.externHavoc[key+"#args"] = true
			}
			continue
		}
		w.specFns[sf.Name] = sf
	}
	need := map[string]bool{}
	for _, ct := range all {
		if strings.Contains(ct.FullName(), *fn) || (*prop != "" && hasProp(ct, *prop)) {
			need[ct.PkgPath] = true
		}
	}
	var pk []string
	for p := range need {
		pk = append(pk, p)
	}
	if err := w.Load(pk, nil); err != nil {
		fmt.Println(err)
		return 1
	}
	var loaded []*Contract
	for _, ct := range all {
		if w.pkgs[ct.PkgPath] != nil {
			loaded = append(loaded, ct)
		}
	}
	w.bind(loaded)
	installPropertyHooks(w, *prop)
	for _, ct := range loaded {
		if !strings.Contains(ct.FullName(), *fn) || ct.Fn == nil {
			continue
		}
		r := w.verifyFunction(ct)
		if r.Err != "" {
			fmt.Println("ERR", r.Err)
			continue
		}
		for _, o := range append(r.Ctx.obls, r.extra...) {
			if strings.Contains(o.Name, *obl) {
				fmt.Println(";;;; ", o.Name)
				fmt.Println(o.Query(true))
			}
		}
	}
	return 0
}
