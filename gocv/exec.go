package main

// Symbolic execution of go/ssa functions in block-equation form.

import (
	"fmt"
	"go/token"
	"go/types"
	"sort"
	"strings"
	"sync"

	"golang.org/x/tools/go/ssa"
)

type retRec struct {
	st   *State
	vals []*Val
}

type deferRec struct {
	cond Term
	call *ssa.Defer
	args []*Val
	fnv  *Val
}

type Frame struct {
	c          *Ctx
	fn         *ssa.Function
	env        map[ssa.Value]*Val
	edge       map[[2]int]*State
	rets       []retRec
	defers     []deferRec
	caller     *Frame
	depth      int
	li         *LoopInfo
	contract   *Contract // contract of fn when fn is the function under verification
	top        bool
	entry      *State  // state at entry (for old())
	curLoops   []*Loop // unrolled loops currently being executed (innermost last)
	siteOrd    map[ssa.Instruction]string
	isaWrites  []isaWrite
	view       *regView
	lanes      *laneSpec
	loopEntry  map[int]*State                                                   // state on entry to each loop cut at an invariant (spec builtin atloop)
	cutCarried []Term                                                           // havoc symbols of the loop-carried values (header phis other than the induction variable) of the loops cut so far (spec builtin loopfree)
	onCall     func(f *Frame, st *State, call ssa.CallInstruction, args []*Val) // hook (assert-at, C06 ...)
}

func (f *Frame) pos(in ssa.Instruction) token.Position {
	p := in.Pos()
	if !p.IsValid() {
		// fall back to the function position
		p = f.fn.Pos()
	}
	return f.c.W.fset.Position(p)
}

func (f *Frame) get(v ssa.Value) *Val {
	switch x := v.(type) {
	case *ssa.Const:
		return f.c.constVal(x)
	case *ssa.Global:
		return scalar(f.c.globalRef(x), x.Type())
	case *ssa.Function:
		return &Val{K: KFunc, Ty: x.Type(), Fn: x}
	case *ssa.Builtin:
		return &Val{K: KFunc, Ty: x.Type()}
	}
	if r, ok := f.env[v]; ok {
		return r
	}
	panic(unsupported("use of undefined SSA value %s in %s", v.Name(), f.fn.Name()))
}

func (f *Frame) getOn(v ssa.Value, st *State) *Val {
	if st != nil && st.ov != nil {
		if r, ok := st.ov[v]; ok {
			return r
		}
	}
	return f.get(v)
}

func (c *Ctx) globalRef(g *ssa.Global) Term {
	if t, ok := c.globals[g]; ok {
		return t
	}
	id := globalBase + c.W.globalID(g)
	t := MkRef(IntLitI(int64(id)), raw("pnil", SPath))
	c.globals[g] = t
	return t
}

func slotOf(pred, succ *ssa.BasicBlock, nth int) int {
	// nth occurrence of succ in pred.Succs
	k := 0
	for i, s := range pred.Succs {
		if s == succ {
			if k == nth {
				return i
			}
			k++
		}
	}
	return -1
}

// predSlots maps each entry of b.Preds to the successor slot in that pred.
func predSlots(b *ssa.BasicBlock) []int {
	out := make([]int, len(b.Preds))
	seen := map[*ssa.BasicBlock]int{}
	for i, p := range b.Preds {
		out[i] = slotOf(p, b, seen[p])
		seen[p]++
	}
	return out
}

func (f *Frame) setEdge(from *ssa.BasicBlock, slot int, st *State) {
	key := [2]int{from.Index, slot}
	to := from.Succs[slot]
	// leaving unrolled loops: snapshot live-out values
	for _, L := range f.curLoops {
		if L.Blocks[from] && !L.Blocks[to] {
			if st.ov == nil {
				st.ov = map[ssa.Value]*Val{}
			}
			for _, v := range f.liveOut(L) {
				if val, ok := f.env[v]; ok {
					if _, has := st.ov[v]; !has {
						st.ov[v] = val
					}
				}
			}
		}
	}
	if old, ok := f.edge[key]; ok && old != nil {
		f.edge[key] = f.c.mergeStates([]*State{old, st})
		return
	}
	f.edge[key] = st
}

var liveOutCache = map[*Loop][]ssa.Value{}
var liveOutMu sync.Mutex

func (f *Frame) liveOut(L *Loop) []ssa.Value {
	liveOutMu.Lock()
	r, ok := liveOutCache[L]
	liveOutMu.Unlock()
	if ok {
		return r
	}
	var out []ssa.Value
	for b := range L.Blocks {
		for _, in := range b.Instrs {
			v, ok := in.(ssa.Value)
			if !ok || v.Referrers() == nil {
				continue
			}
			for _, r := range *v.Referrers() {
				if !L.Blocks[r.Block()] {
					out = append(out, v)
					break
				}
				// phi in an exit target counts as outside use (handled by block test)
			}
		}
	}
	sort.Slice(out, func(i, j int) bool { return out[i].Name() < out[j].Name() })
	liveOutMu.Lock()
	liveOutCache[L] = out
	liveOutMu.Unlock()
	return out
}

// entryState merges the states of incoming edges selected by keep and binds phis.
func (f *Frame) entryState(b *ssa.BasicBlock, keep func(pred *ssa.BasicBlock) bool) *State {
	if len(b.Preds) == 0 {
		panic("entryState on entry block")
	}
	slots := predSlots(b)
	var sts []*State
	var idx []int
	for i, p := range b.Preds {
		if keep != nil && !keep(p) {
			continue
		}
		st := f.edge[[2]int{p.Index, slots[i]}]
		if st == nil || st.reach.IsFalse() {
			continue
		}
		sts = append(sts, st)
		idx = append(idx, i)
	}
	// phis (parallel assignment)
	var phis []*ssa.Phi
	for _, in := range b.Instrs {
		if p, ok := in.(*ssa.Phi); ok {
			phis = append(phis, p)
		} else {
			break
		}
	}
	vals := make([]*Val, len(phis))
	for k, p := range phis {
		var acc *Val
		for j := len(sts) - 1; j >= 0; j-- {
			v := f.getOn(p.Edges[idx[j]], sts[j])
			if acc == nil {
				acc = v
			} else {
				acc = f.c.iteVal(sts[j].reach, v, acc)
			}
		}
		vals[k] = acc
	}
	m := f.c.mergeStates(sts)
	for k, v := range m.ov {
		f.env[k] = v
	}
	m.ov = nil
	for k, p := range phis {
		if vals[k] != nil {
			f.env[p] = f.c.defVal(p.Name(), vals[k])
		}
	}
	return m
}

func (f *Frame) runBlocks(list []*ssa.BasicBlock, inLoop *Loop, start *State) {
	done := map[*ssa.BasicBlock]bool{}
	for i, b := range list {
		if done[b] {
			continue
		}
		if L := f.li.byHeader[b]; L != nil && L != inLoop {
			f.runLoop(L)
			for blk := range L.Blocks {
				done[blk] = true
			}
			continue
		}
		var st *State
		if i == 0 && start != nil {
			st = start
		} else {
			st = f.entryState(b, nil)
		}
		f.runBlock(b, st)
	}
}

func (f *Frame) loopBlocksRPO(L *Loop) []*ssa.BasicBlock {
	var out []*ssa.BasicBlock
	for _, b := range f.li.rpo {
		if L.Blocks[b] {
			out = append(out, b)
		}
	}
	return out
}

func (f *Frame) clearInner(L *Loop) {
	for b := range L.Blocks {
		for s, t := range b.Succs {
			if L.Blocks[t] {
				delete(f.edge, [2]int{b.Index, s})
			}
		}
	}
}

func (f *Frame) runLoop(L *Loop) {
	var invs []Clause
	unrollForced := false
	if f.contract != nil {
		invs = f.contract.LoopInv[L.Ordinal]
		unrollForced = f.contract.Unroll[L.Ordinal]
	}
	trip, isConst := constTrip(L)
	if unrollForced && !isConst {
		trip, isConst = 130, true
	}
	if len(invs) == 0 && isConst {
		if trip == 65 {
			if ls := f.laneSpecFor(); ls != nil && f.laneLoop(L, ls) {
				return
			}
		}
		f.unrollLoop(L, trip)
		return
	}
	f.cutLoop(L, invs)
}

func (f *Frame) unrollLoop(L *Loop, trip int) {
	h := L.Header
	blocks := f.loopBlocksRPO(L)
	f.curLoops = append(f.curLoops, L)
	defer func() { f.curLoops = f.curLoops[:len(f.curLoops)-1] }()
	outside := func(p *ssa.BasicBlock) bool { return !L.Blocks[p] }
	inside := func(p *ssa.BasicBlock) bool { return L.Blocks[p] }
	st := f.entryState(h, outside)
	for iter := 0; ; iter++ {
		if st.reach.IsFalse() {
			break
		}
		if iter > 0 && f.contract != nil && f.contract.Unroll[L.Ordinal] && !f.c.feasible(st.reach) {
			break // the back edge is infeasible under the precondition
		}
		if iter > trip+1 {
			panic(unsupported("loop %d of %s did not terminate after %d unrolled iterations", L.Ordinal, f.fn.Name(), iter))
		}
		f.clearInner(L)
		f.runBlocks(blocks, L, st)
		st = f.entryState(h, inside)
	}
	f.clearInner(L)
	f.c.W.stat(func() { f.c.W.stats.unrolled++ })
}

func (f *Frame) runBlock(b *ssa.BasicBlock, st *State) {
	if st.reach.IsFalse() {
		// still record dead edges so merges see them
		for s := range b.Succs {
			f.setEdge(b, s, &State{reach: TFalse, mem: map[string]Term{}})
		}
		return
	}
	for _, in := range b.Instrs {
		if _, ok := in.(*ssa.Phi); ok {
			continue
		}
		if f.execInstr(in, st) {
			break
		}
	}
}

// execInstr executes one instruction; returns true when it ended the block.
func (f *Frame) execInstr(in ssa.Instruction, st *State) bool {
	c := f.c
	switch x := in.(type) {
	case *ssa.DebugRef:
		return false
	case *ssa.If:
		cond := f.get(x.Cond).T
		b := x.Block()
		t := st.clone()
		t.reach = c.Def("reach", And(st.reach, cond))
		e := st.clone()
		e.reach = c.Def("reach", And(st.reach, Not(cond)))
		if !cond.IsConst() {
			t.br = append(t.br, brTag{st.reach, cond})
			e.br = append(e.br, brTag{st.reach, Not(cond)})
			if c.prune {
				if !c.feasible(t.reach) {
					t.reach = TFalse
				} else if !c.feasible(e.reach) {
					e.reach = TFalse
				}
			}
		}
		f.setEdge(b, 0, t)
		f.setEdge(b, 1, e)
		return true
	case *ssa.Jump:
		f.setEdge(x.Block(), 0, st.clone())
		return true
	case *ssa.Return:
		var vals []*Val
		for _, r := range x.Results {
			vals = append(vals, f.get(r))
		}
		if f.contract != nil && f.caller == nil && len(f.contract.RetAssert) > 0 {
			f.returnAsserts(st, x, vals)
		}
		f.rets = append(f.rets, retRec{st.clone(), vals})
		return true
	case *ssa.Panic:
		f.panicSite(st, in, "panic", TTrue, "explicit panic")
		return true
	case *ssa.RunDefers:
		f.runDefers(st)
		return false
	case *ssa.Defer:
		d := deferRec{cond: st.reach, call: x}
		for _, a := range x.Call.Args {
			d.args = append(d.args, f.get(a))
		}
		if !x.Call.IsInvoke() {
			if _, isB := x.Call.Value.(*ssa.Builtin); !isB {
				d.fnv = f.get(x.Call.Value)
			}
		} else {
			d.fnv = f.get(x.Call.Value)
		}
		f.defers = append(f.defers, d)
		return false
	case *ssa.Go:
		panic(unsupported("go statement in %s", f.fn.Name()))
	case *ssa.Send, *ssa.Select:
		panic(unsupported("channel operation in %s", f.fn.Name()))
	case *ssa.Store:
		addr := f.get(x.Addr)
		f.nilCheck(st, in, addr.T)
		c.store(st, addr.T, deref(x.Addr.Type()), f.get(x.Val))
		return false
	case *ssa.MapUpdate:
		f.mapUpdate(st, x)
		return false
	case ssa.Value:
		v := f.execValue(x, in, st)
		if v != nil {
			f.env[x] = c.defVal(x.Name(), v)
		}
		return false
	}
	panic(unsupported("instruction %T in %s", in, f.fn.Name()))
}

// returnAsserts: intermediate assertions attached to a return statement are proved in the state
// reaching it (loop variables of the enclosing iteration are in scope) and then assumed.
func (f *Frame) returnAsserts(st *State, ret *ssa.Return, vals []*Val) {
	c := f.c
	var rets []*ssa.Return
	for _, b := range f.fn.Blocks {
		for _, in := range b.Instrs {
			if r, ok := in.(*ssa.Return); ok {
				rets = append(rets, r)
			}
		}
	}
	sort.Slice(rets, func(i, j int) bool { return rets[i].Pos() < rets[j].Pos() })
	k := -1
	for i, r := range rets {
		if r == ret {
			k = i
		}
	}
	cls := f.contract.RetAssert[k]
	if len(cls) == 0 {
		return
	}
	sc := &Scope{c: c, fr: f, st: st, old: f.entry, vars: map[string]*Val{}, at: ret.Block(), atInstr: ret, anyLoop: true, pkg: f.fn.Pkg}
	if len(vals) == 1 {
		bindResults(sc, f.fn, vals[0])
	} else if len(vals) > 1 {
		bindResults(sc, f.fn, &Val{K: KTuple, F: vals, Ty: f.fn.Signature.Results()})
	}
	for _, cl := range cls {
		where := fmt.Sprintf("return%d", k)
		t := f.evalSpecBool(sc.asGoal(), cl, where)
		o := c.Oblige("assert", where+"."+cl.Name, st.reach, t, c.W.fset.Position(ret.Pos()), "intermediate assertion: "+cl.Src)
		o.Inputs = f.inputTerms()
		c.Assume(st.reach, f.evalSpecBool(sc.asAssumption(), cl, where), "intermediate assertion "+cl.Name+" (proved as "+o.Name+")")
	}
}

func deref(t types.Type) types.Type {
	if p, ok := t.Underlying().(*types.Pointer); ok {
		return p.Elem()
	}
	panic(unsupported("deref of non-pointer %s", t))
}

// panicSite records a potential run-time panic under cond and cuts the path.
func (f *Frame) panicSite(st *State, in ssa.Instruction, kind string, cond Term, what string) {
	c := f.c
	if cond.IsFalse() {
		return
	}
	top := f.topFrame()
	if top.contract != nil && top.contract.NoPanic && !f.whitelisted(in, kind, what) {
		label := f.siteLabel(in, kind)
		o := c.Oblige("nopanic", label, st.reach, Not(cond), f.pos(in), what)
		o.Inputs = top.inputTerms()
	}
	st.reach = c.Def("reach", And(st.reach, Not(cond)))
	st.br = nil
}

func (f *Frame) topFrame() *Frame {
	t := f
	for t.caller != nil {
		t = t.caller
	}
	return t
}

func (f *Frame) whitelisted(in ssa.Instruction, kind, what string) bool {
	top := f.topFrame()
	for _, mp := range top.contract.MayPanic {
		// forms:  "<reason>" at <callee-or-kind>
		parts := strings.SplitN(mp, " at ", 2)
		target := strings.TrimSpace(parts[len(parts)-1])
		if target == kind || target == "*" || strings.Contains(f.fn.Name(), target) || strings.Contains(what, strings.Trim(target, "\"")) {
			return true
		}
	}
	return false
}

func (f *Frame) siteLabel(in ssa.Instruction, kind string) string {
	top := f.topFrame()
	if top.siteOrd == nil {
		top.siteOrd = map[ssa.Instruction]string{}
	}
	if l, ok := top.siteOrd[in]; ok {
		f.c.sites[l]++
		return fmt.Sprintf("%s@%d", l, f.c.sites[l])
	}
	prefix := kind
	if f != top {
		prefix = kind + "." + f.fn.Name()
	}
	l := f.c.siteName(prefix)
	top.siteOrd[in] = l
	return l
}

func (f *Frame) nilCheck(st *State, in ssa.Instruction, r Term) {
	if strings.HasPrefix(r.S, "(mkref ") && r.S != TNull.S {
		return
	}
	if st.nonnil[r.S] {
		return
	}
	if rs, ok := f.c.refStruct[r.S]; ok {
		// field/element addresses of a checked reference are non-nil too
		if root, _, ok2 := splitRef(rs); ok2 && strings.HasPrefix(root.S, "(rroot ") && st.nonnil[root.S[7:len(root.S)-1]] {
			return
		}
	}
	f.panicSite(st, in, "nil", Eq(r, TNull), "nil pointer dereference")
	if st.nonnil == nil {
		st.nonnil = map[string]bool{}
	}
	st.nonnil[r.S] = true
}

func (f *Frame) inputTerms() map[string]Term {
	out := map[string]Term{}
	for _, p := range f.fn.Params {
		if v, ok := f.env[p]; ok {
			addInputTerms(out, p.Name(), v)
		}
	}
	// contents of integer slices (for replay on the real code): the first elements at entry
	if f.entry != nil && replayableSig(f.fn) {
		for _, p := range f.fn.Params {
			v, ok := f.env[p]
			if !ok || v.K != KSlice {
				continue
			}
			et := elemOf(v.Ty)
			n := replaySliceElems(et)
			for i := 0; i < n; i++ {
				ev := f.c.load(f.entry, RefElem(v.Base, f.c.idxAdd(v.Off, f.c.idxLit(int64(i)))), et)
				out[fmt.Sprintf("%s[%d]", p.Name(), i)] = ev.T
			}
		}
	}
	return out
}

// replaySliceElems: how many leading elements of a slice input are reported in models.
func replaySliceElems(et types.Type) int {
	if w, _, ok := intInfo(et); ok {
		if w == 8 {
			return 272
		}
		return 32
	}
	return 0
}

// replayPossible: plain function whose parameters the replay harness can construct.
func replayPossible(fn *ssa.Function) bool {
	if fn.Signature.Recv() != nil || fn.Parent() != nil {
		return false
	}
	for _, p := range fn.Params {
		if scalarShape(p.Type()) {
			continue
		}
		if sl, ok := p.Type().Underlying().(*types.Slice); ok {
			if _, _, isInt := intInfo(sl.Elem()); isInt {
				continue
			}
		}
		return false
	}
	return true
}

// replayableSig: plain function whose parameters are scalars or integer slices (the shapes the
// generic replay harness can construct).
func replayableSig(fn *ssa.Function) bool {
	if fn.Signature.Recv() != nil || fn.Parent() != nil {
		return false
	}
	hasSlice := false
	for _, p := range fn.Params {
		if scalarShape(p.Type()) {
			continue
		}
		if sl, ok := p.Type().Underlying().(*types.Slice); ok {
			if _, _, isInt := intInfo(sl.Elem()); isInt {
				hasSlice = true
				continue
			}
		}
		return false
	}
	return hasSlice
}

func addInputTerms(out map[string]Term, name string, v *Val) {
	switch v.K {
	case KScalar:
		out[name] = v.T
	case KSlice:
		out[name+".len"] = v.Len
		out[name+".cap"] = v.Cap
		out[name+".base"] = v.Base
		out[name+".off"] = v.Off
	case KTuple:
		for i, fv := range v.F {
			addInputTerms(out, fmt.Sprintf("%s.%d", name, i), fv)
		}
	case KIface:
		out[name+".tag"] = v.Tag
		out[name+".pay"] = v.Pay
	}
}

// runFunction executes fn's body from state st with the given arguments and
// returns the merged return state and results.
func (f *Frame) runBody(st *State) (*State, []*Val) {
	fn := f.fn
	if len(fn.Blocks) == 0 {
		panic(unsupported("function %s has no body", fn.String()))
	}
	f.li = f.c.W.loopInfo(fn)
	f.edge = map[[2]int]*State{}
	f.entry = st.clone()
	f.runBlocks(f.li.rpo, nil, st)
	if len(f.rets) == 0 {
		return &State{reach: TFalse, mem: map[string]Term{}}, nil
	}
	var sts []*State
	for _, r := range f.rets {
		sts = append(sts, r.st)
	}
	nres := len(f.rets[0].vals)
	res := make([]*Val, nres)
	for k := 0; k < nres; k++ {
		var acc *Val
		for j := len(f.rets) - 1; j >= 0; j-- {
			if f.rets[j].st.reach.IsFalse() {
				continue
			}
			if acc == nil {
				acc = f.rets[j].vals[k]
			} else {
				acc = f.c.iteVal(f.rets[j].st.reach, f.rets[j].vals[k], acc)
			}
		}
		if acc == nil {
			acc = f.rets[0].vals[k]
		}
		res[k] = f.c.defVal("ret", acc)
	}
	return f.c.mergeStates(sts), res
}

func (f *Frame) runDefers(st *State) {
	for i := len(f.defers) - 1; i >= 0; i-- {
		d := f.defers[i]
		// executed only on paths that registered it
		if d.cond.S == st.reach.S || d.cond.IsTrue() {
			f.doCall(st, d.call, d.call.Common(), d.args, d.fnv)
			continue
		}
		yes := st.clone()
		yes.reach = f.c.Def("reach", And(st.reach, d.cond))
		no := st.clone()
		no.reach = f.c.Def("reach", And(st.reach, Not(d.cond)))
		f.doCall(yes, d.call, d.call.Common(), d.args, d.fnv)
		m := f.c.mergeStates([]*State{yes, no})
		st.adopt(m)
	}
	f.defers = nil
}
