package main

// Verification of one function against its contract; loop cutting; frames.

import (
	"fmt"
	"go/types"
	"sort"
	"strconv"
	"strings"

	"golang.org/x/tools/go/ssa"
)

// location kinds for modifies clauses
type Loc struct {
	kind string // cell | elems | mapall | ghost | under
	addr Term
	ty   types.Type
	sl   *Val // elems: the slice
	name string
}

func (s *Scope) evalLoc(e *Expr) Loc {
	c := s.c
	switch e.Op {
	case "sel":
		a := s.eval(e.Args[0])
		p, ok := a.Ty.Underlying().(*types.Pointer)
		if !ok {
			panic(sfail("modifies: %s is not a pointer selection", e.Src))
		}
		addr, ft := s.fieldAddr(a.T, p.Elem(), e.Name)
		return Loc{kind: "cell", addr: addr, ty: ft}
	case "index":
		a := s.eval(e.Args[0])
		if a.K != KSlice {
			panic(sfail("modifies: indexing of non-slice"))
		}
		idx := s.toIdx(s.eval(e.Args[1]))
		return Loc{kind: "cell", addr: RefElem(a.Base, c.idxAdd(a.Off, idx)), ty: elemOf(a.Ty)}
	case "allelems":
		a := s.eval(e.Args[0])
		if a.K == KSlice {
			if e.Name == "cap" {
				w := *a
				w.Len = a.Cap
				a = &w
			}
			return Loc{kind: "elems", sl: a, ty: elemOf(a.Ty)}
		}
		if _, ok := a.Ty.Underlying().(*types.Map); ok {
			return Loc{kind: "mapall", addr: a.T, ty: a.Ty}
		}
		panic(sfail("modifies: [*] on %s", a.Ty))
	case "call":
		if e.Name == "deref" || e.Name == "all" {
			a := s.eval(e.Args[0])
			return Loc{kind: "under", addr: a.T, ty: deref(a.Ty)}
		}
		if e.Name == "ghost" {
			return Loc{kind: "ghost", name: e.Args[0].Name}
		}
	}
	panic(sfail("modifies: unsupported location %q", e.Src))
}

// underTerm: r denotes a cell inside the object/aggregate at addr (prefix test, depth <= 3)
func underTerm(r string, addr Term) Term {
	a := addr.S
	p0 := fmt.Sprintf("(rpath %s)", r)
	parent := func(p string) string {
		return fmt.Sprintf("(ite ((_ is psub) %s) (psubp %s) (ite ((_ is pelem) %s) (pelemp %s) pnil))", p, p, p, p)
	}
	p1 := parent(p0)
	p2 := parent(p1)
	p3 := parent(p2)
	eq := func(p string) string {
		return fmt.Sprintf("(and (not (= %s pnil)) (= %s (rpath %s)))", p, p, a)
	}
	_ = eq
	same := func(p string, guard string) string {
		return fmt.Sprintf("(and %s (= %s (rpath %s)))", guard, p, a)
	}
	nn := func(p string) string { return fmt.Sprintf("(not (= %s pnil))", p) }
	return raw(fmt.Sprintf("(and (= (rroot %s) (rroot %s)) (or (= %s (rpath %s)) %s %s %s))", r, a, p0, a,
		same(p1, nn(p0)), same(p2, "(and "+nn(p0)+" "+nn(p1)+")"), same(p3, "(and "+nn(p0)+" "+nn(p1)+" "+nn(p2)+")")), SBool)
}

// elemsTerm: r is (inside) an element of the slice window [off, off+len) of base
func (c *Ctx) elemsTerm(r string, sl *Val, whole bool) Term {
	p0 := fmt.Sprintf("(rpath %s)", r)
	parent := func(p string) string {
		return fmt.Sprintf("(ite ((_ is psub) %s) (psubp %s) (ite ((_ is pelem) %s) (pelemp %s) pnil))", p, p, p, p)
	}
	var alts []string
	p := p0
	for d := 0; d < 3; d++ {
		idx := raw(fmt.Sprintf("(pelemi %s)", p), c.idxSort)
		win := And(c.idxLe(sl.Off, idx), c.idxLt(idx, c.idxAdd(sl.Off, sl.Len)))
		if whole {
			win = TTrue
		}
		alts = append(alts, fmt.Sprintf("(and ((_ is pelem) %s) (= (pelemp %s) (rpath %s)) %s)", p, p, sl.Base.S, win.S))
		p = parent(p)
	}
	return raw(fmt.Sprintf("(and (= (rroot %s) (rroot %s)) (or %s))", r, sl.Base.S, strings.Join(alts, " ")), SBool)
}

// havocLocations replaces the listed locations by unconstrained values.
func (f *Frame) havocLocations(st *State, sc *Scope, locs []*Expr) {
	var ls []Loc
	for _, le := range locs {
		ls = append(ls, sc.evalLoc(le))
	}
	f.havocLocs(st, ls)
}

// havocLocs: the same for already evaluated locations.
func (f *Frame) havocLocs(st *State, locs []Loc) {
	c := f.c
	var quantLocs []Loc
	for _, l := range locs {
		switch l.kind {
		case "cell":
			if isAggregate(l.ty) {
				quantLocs = append(quantLocs, Loc{kind: "under", addr: l.addr, ty: l.ty})
			} else {
				c.store(st, l.addr, l.ty, c.freshVal("hv", l.ty))
			}
		case "ghost":
			if old, ok := st.mem[l.name]; ok {
				st.mem[l.name] = c.Fresh("hv."+l.name, old.Sort)
			} else if old, ok := c.memInit[l.name]; ok {
				st.mem[l.name] = c.Fresh("hv."+l.name, old.Sort)
			}
		case "mapall":
			key := typeKey(l.ty)
			var msNames []string
			for name := range c.memSort {
				msNames = append(msNames, name)
			}
			sort.Strings(msNames)
			for _, name := range msNames {
				as := c.memSort[name]
				if strings.HasPrefix(name, "MAPP_"+key) || strings.HasPrefix(name, "MAPV_"+key) || name == "MAPLEN_"+key {
					cur := c.memGetRaw(st, name)
					_, inner := arrSorts(as)
					st.mem[name] = c.Def(name, Store(cur, l.addr, c.Fresh("hv."+name, inner)))
				}
			}
			// memories not yet declared are declared on demand and start unconstrained at this map: ensure by touching
			mt := l.ty.Underlying().(*types.Map)
			pres, vals, pn, vn, _, _ := c.mapMems(st, mt)
			_, inner := arrSorts(pres.Sort)
			st.mem[pn] = c.Def(pn, Store(pres, l.addr, c.Fresh("hv."+pn, inner)))
			for i, va := range vals {
				_, in2 := arrSorts(va.Sort)
				st.mem[vn[i]] = c.Def(vn[i], Store(va, l.addr, c.Fresh("hv."+vn[i], in2)))
			}
		case "elems":
			if isAggregate(l.ty) {
				quantLocs = append(quantLocs, l)
				continue
			}
			c.usesQuant = true
			for _, lf := range c.cellLeaves(l.ty) {
				en := "E" + (c.memName(l.ty) + lf.suffix)[1:]
				e := c.elemGet(st, en, lf.sort)
				inner := SArr(c.idxSort, lf.sort)
				na := c.Fresh("hv."+en, inner)
				i := raw("i", c.idxSort)
				inWin := And(c.idxLe(l.sl.Off, i), c.idxLt(i, c.idxAdd(l.sl.Off, l.sl.Len)))
				c.assumes = append(c.assumes, Assume{declPos: len(c.decls), why: "frame of havocked slice elements",
					t: raw(fmt.Sprintf("(forall ((i %s)) (! (=> (not %s) (= (select %s i) (select (select %s %s) i))) :pattern ((select %s i))))",
						c.idxSort, inWin.S, na.S, e.S, l.sl.Base.S, na.S), SBool)})
				if lf.sort == SRef {
					c.assumes = append(c.assumes, Assume{declPos: len(c.decls), why: "havocked references are allocated",
						t: raw(fmt.Sprintf("(forall ((i %s)) (! (and (< (rroot (select %s i)) %d) (>= (rroot (select %s i)) 0)) :pattern ((select %s i))))",
							c.idxSort, na.S, birthBase+c.nextObj+1, na.S, na.S), SBool)})
				}
				c.memSet(st, en, Store(e, l.sl.Base, na))
			}
		default:
			quantLocs = append(quantLocs, l)
		}
	}
	if len(quantLocs) == 0 {
		return
	}
	// quantified havoc over every memory that can hold a cell of the listed aggregates
	c.usesQuant = true
	bound := birthBase + c.nextObj + 1
	names := c.memoriesFor(quantLocs)
	for _, name := range names {
		as := c.memSort[name]
		old := c.memGetRaw(st, name)
		nw := c.Fresh("hv."+name, as)
		var conds []Term
		if strings.HasPrefix(name, "E_") {
			// whole arrays located inside a havocked aggregate
			for _, l := range quantLocs {
				switch l.kind {
				case "under":
					conds = append(conds, underTerm("r", l.addr))
				case "elems":
					conds = append(conds, c.elemsTerm("r", l.sl, true))
				}
			}
			c.assumes = append(c.assumes, Assume{declPos: len(c.decls), why: "frame of havocked aggregate locations",
				t: raw(fmt.Sprintf("(forall ((r Ref)) (! (=> (not %s) (= (select %s r) (select %s r))) :pattern ((select %s r))))",
					Or(conds...).S, nw.S, old.S, nw.S), SBool)})
			st.mem[name] = nw
			continue
		}
		for _, l := range quantLocs {
			switch l.kind {
			case "under":
				conds = append(conds, underTerm("r", l.addr))
			case "elems":
				conds = append(conds, c.elemsTerm("r", l.sl, false))
			}
		}
		c.assumes = append(c.assumes, Assume{declPos: len(c.decls), why: "frame of havocked aggregate locations",
			t: raw(fmt.Sprintf("(forall ((r Ref)) (! (=> (not %s) (= (select %s r) (select %s r))) :pattern ((select %s r))))",
				Or(conds...).S, nw.S, old.S, nw.S), SBool)})
		_, vs := arrSorts(as)
		if vs == SRef {
			c.assumes = append(c.assumes, Assume{declPos: len(c.decls), why: "havocked references are allocated",
				t: raw(fmt.Sprintf("(forall ((r Ref)) (! (and (< (rroot (select %s r)) %d) (>= (rroot (select %s r)) 0)) :pattern ((select %s r))))",
					nw.S, bound, nw.S, nw.S), SBool)})
		}
		st.mem[name] = nw
	}
}

func (c *Ctx) memGetRaw(st *State, name string) Term {
	if t, ok := st.mem[name]; ok {
		return t
	}
	return c.memInit[name]
}

func isAggregate(t types.Type) bool {
	switch t.Underlying().(type) {
	case *types.Struct, *types.Array:
		return true
	}
	return false
}

// memoriesFor lists the memories that may hold cells of the given aggregate locations.
func (c *Ctx) memoriesFor(locs []Loc) []string {
	set := map[string]string{}
	inArr := false
	var walk func(t types.Type, seen map[string]bool)
	walk = func(t types.Type, seen map[string]bool) {
		switch u := t.Underlying().(type) {
		case *types.Struct:
			k := typeKey(t)
			if seen[k] {
				return
			}
			seen[k] = true
			for i := 0; i < u.NumFields(); i++ {
				walk(u.Field(i).Type(), seen)
			}
		case *types.Array:
			inArr = true
			walk(u.Elem(), seen)
			inArr = false
		default:
			for _, l := range c.cellLeaves(t) {
				set[c.memName(t)+l.suffix] = l.sort
				if inArr {
					set["E"+(c.memName(t) + l.suffix)[1:]] = SArr(c.idxSort, l.sort)
				}
			}
		}
	}
	for _, l := range locs {
		walk(l.ty, map[string]bool{})
	}
	var out []string
	for n, vs := range set {
		// declare on demand so that the frame axiom covers it
		c.declareMem(n, SArr(SRef, vs))
		out = append(out, n)
	}
	sort.Strings(out)
	return out
}

// ---- loop cutting ---------------------------------------------------------------------------

func (f *Frame) headerPhis(L *Loop) []*ssa.Phi {
	var out []*ssa.Phi
	for _, in := range L.Header.Instrs {
		if p, ok := in.(*ssa.Phi); ok {
			out = append(out, p)
		} else {
			break
		}
	}
	return out
}

// loopWrites scans the loop body for heap writes. Returns (memory names fully
// written, exact cells, element windows); ok=false means "unknown: havoc all".
func (f *Frame) loopWrites(L *Loop) (mems map[string]string, maps map[string]*types.Map, all bool) {
	mems = map[string]string{}
	maps = map[string]*types.Map{}
	var scanFn func(fn *ssa.Function, depth int, seen map[*ssa.Function]bool)
	scanInstr := func(in ssa.Instruction, depth int, seen map[*ssa.Function]bool) {
		switch x := in.(type) {
		case *ssa.Store:
			// a store into a non-escaping local that is (re)allocated inside the loop body or
			// inside a scanned callee is invisible at the cut: the variable is fresh each time
			if a := allocRoot(x.Addr); a != nil && !a.Heap && (depth > 0 || L.Blocks[a.Block()]) {
				return
			}
			f.addMemsOfType(deref(x.Addr.Type()), mems)
		case *ssa.MapUpdate:
			mt := x.Map.Type().Underlying().(*types.Map)
			maps[typeKey(mt)] = mt
		case ssa.CallInstruction:
			common := x.Common()
			if b, ok := common.Value.(*ssa.Builtin); ok {
				switch b.Name() {
				case "append", "copy":
					if sl, ok := common.Args[0].Type().Underlying().(*types.Slice); ok {
						f.addMemsOfType(sl.Elem(), mems)
					}
				case "delete":
					mt := common.Args[0].Type().Underlying().(*types.Map)
					maps[typeKey(mt)] = mt
				}
				return
			}
			if common.IsInvoke() {
				name := ifaceMethodName(common)
				if _, ok := f.c.W.externKey(f.scopePkg(), name); ok {
					return
				}
				if w, ok := f.c.W.modelWrites[name]; ok {
					for _, m := range w {
						mems[m] = ""
					}
					return
				}
				all = true
				return
			}
			callee := common.StaticCallee()
			if callee == nil {
				all = true
				return
			}
			key := fnKey(callee)
			if _, ok := f.c.W.externKey(f.scopePkg(), key); ok {
				return
			}
			if w, ok := f.c.W.modelWrites[key]; ok {
				for _, m := range w {
					mems[m] = ""
				}
				return
			}
			if _, ok := f.c.W.models[key]; ok {
				return
			}
			if neutral(key) || isPanicFn(key) {
				return
			}
			if ct := f.c.W.contractFor(callee); ct != nil {
				if ct.Pure || (ct.ModGiven && len(ct.Modifies) == 0) {
					return
				}
				// conservative: type-based
				all = true
				return
			}
			if len(callee.Blocks) == 0 || depth > 6 || seen[callee] {
				all = true
				return
			}
			seen[callee] = true
			scanFn(callee, depth+1, seen)
		}
	}
	scanFn = func(fn *ssa.Function, depth int, seen map[*ssa.Function]bool) {
		for _, b := range fn.Blocks {
			for _, in := range b.Instrs {
				scanInstr(in, depth, seen)
			}
		}
	}
	for b := range L.Blocks {
		for _, in := range b.Instrs {
			scanInstr(in, 0, map[*ssa.Function]bool{})
		}
	}
	return mems, maps, all
}

func (f *Frame) addMemsOfType(t types.Type, mems map[string]string) {
	switch u := t.Underlying().(type) {
	case *types.Struct:
		for i := 0; i < u.NumFields(); i++ {
			f.addMemsOfType(u.Field(i).Type(), mems)
		}
	case *types.Array:
		f.addMemsOfType(u.Elem(), mems)
	default:
		for _, l := range f.c.cellLeaves(t) {
			mems[f.c.memName(t)+l.suffix] = l.sort
			mems["E"+(f.c.memName(t) + l.suffix)[1:]] = SArr(f.c.idxSort, l.sort)
		}
	}
}

// allocRoot: the local allocation an address is derived from by field/element selection, if any.
func allocRoot(v ssa.Value) *ssa.Alloc {
	for i := 0; i < 32; i++ {
		switch x := v.(type) {
		case *ssa.Alloc:
			return x
		case *ssa.FieldAddr:
			v = x.X
		case *ssa.IndexAddr:
			if _, isPtr := x.X.Type().Underlying().(*types.Pointer); !isPtr {
				return nil // element of a slice: the backing array is elsewhere
			}
			v = x.X
		default:
			return nil
		}
	}
	return nil
}

func (f *Frame) loopScope(L *Loop, st *State) *Scope {
	sc := &Scope{c: f.c, fr: f, st: st, old: f.topFrame().entry, vars: map[string]*Val{}, at: L.Header, loop: L}
	if f.fn.Pkg != nil {
		sc.pkg = f.fn.Pkg
	}
	return sc
}

func (f *Frame) cutLoop(L *Loop, invs []Clause) {
	c := f.c
	h := L.Header
	pos := c.W.fset.Position(loopPos(L))
	outside := func(p *ssa.BasicBlock) bool { return !L.Blocks[p] }
	inside := func(p *ssa.BasicBlock) bool { return L.Blocks[p] }
	st := f.entryState(h, outside)
	if st.reach.IsFalse() {
		for b := range L.Blocks {
			for s := range b.Succs {
				if !L.Blocks[b.Succs[s]] {
					f.setEdge(b, s, &State{reach: TFalse, mem: map[string]Term{}})
				}
			}
		}
		return
	}
	lname := fmt.Sprintf("loop%d", L.Ordinal)
	if f.loopEntry == nil {
		f.loopEntry = map[int]*State{}
	}
	f.loopEntry[L.Ordinal] = st.clone()
	// 1. invariant holds on entry
	sc := f.loopScope(L, st)
	for _, inv := range invs {
		t := f.evalSpecBool(sc.asGoal(), inv, lname)
		o := c.Oblige("loopinv", lname+"."+inv.Name+".init", st.reach, t, pos, "invariant holds on entry: "+inv.Src)
		o.Inputs = f.topFrame().inputTerms()
	}
	// 2. havoc
	pre := st.clone()
	if f.loopEntry == nil {
		f.loopEntry = map[int]*State{}
	}
	f.loopEntry[L.Ordinal] = pre
	var lm []*Expr
	declared := false
	if f.contract != nil {
		lm, declared = f.contract.LoopMod[L.Ordinal]
	}
	if declared {
		f.havocLocations(st, sc, lm)
	} else {
		mems, maps, all := f.loopWrites(L)
		if all {
			c.note("loop %d of %s calls code with unknown effects: whole heap havocked at the cut", L.Ordinal, f.fn.Name())
			c.havocAll(st)
		} else {
			bound := c.bumpAlloc()
			var names []string
			for n := range mems {
				names = append(names, n)
			}
			sort.Strings(names)
			for _, n := range names {
				vs := mems[n]
				if vs == "" { // ghost written by a model
					if cur, ok := c.memInit[n]; ok {
						st.mem[n] = c.Fresh("hv."+n, cur.Sort)
					}
					continue
				}
				as := SArr(SRef, vs)
				c.declareMem(n, as)
				m := c.Fresh("hv."+n, as)
				st.mem[n] = m
				c.memAxioms(m, vs, bound, n)
			}
			var mk []string
			for k := range maps {
				mk = append(mk, k)
			}
			sort.Strings(mk)
			for _, k := range mk {
				pres, vals, pn, vn, _, _ := c.mapMems(st, maps[k])
				st.mem[pn] = c.Fresh("hv."+pn, pres.Sort)
				for i, va := range vals {
					st.mem[vn[i]] = c.Fresh("hv."+vn[i], va.Sort)
				}
				ln := "MAPLEN_" + k
				c.declareMem(ln, SArr(SRef, c.idxSort))
				st.mem[ln] = c.Fresh("hv."+ln, SArr(SRef, c.idxSort))
			}
		}
	}
	phis := f.headerPhis(L)
	ind := inductionPhi(L)
	for _, p := range phis {
		v := c.freshVal(lname+"."+p.Comment, p.Type())
		f.assumeAllocated(v)
		f.env[p] = v
		if p != ind {
			f.cutCarried = append(f.cutCarried, valTerms(v)...)
		}
	}
	saved := map[*ssa.Phi]*Val{}
	for _, p := range phis {
		saved[p] = f.env[p]
	}
	// 3. assume the invariant
	sc = f.loopScope(L, st)
	for _, inv := range invs {
		t := f.evalSpecBool(sc.asAssumption(), inv, lname)
		c.Assume(st.reach, t, "loop invariant "+inv.Name)
	}
	var variant0 Term
	var dec *Expr
	if f.contract != nil {
		dec = f.contract.LoopDec[L.Ordinal]
	}
	if dec != nil {
		variant0 = sc.eval(dec).T
	}
	_ = pre
	// 4. one arbitrary iteration
	blocks := f.loopBlocksRPO(L)
	f.clearInner(L)
	f.runBlocks(blocks, L, st)
	// 5. invariant preserved on every back edge
	back := f.entryState(h, inside)
	if !back.reach.IsFalse() {
		sc2 := f.loopScope(L, back)
		for _, inv := range invs {
			t := f.evalSpecBool(sc2.asGoal(), inv, lname)
			o := c.Oblige("loopinv", lname+"."+inv.Name+".step", back.reach, t, pos, "invariant preserved by the loop body: "+inv.Src)
			o.Inputs = f.topFrame().inputTerms()
		}
		if dec != nil {
			v1 := sc2.eval(dec).T
			var ok Term
			if v1.Sort == SInt {
				ok = And(ILe(IntLitI(0), variant0), ILt(v1, variant0))
			} else {
				ok = And(BVSle(BVLitI(0, bvWidth(v1.Sort)), variant0), BVSlt(v1, variant0))
			}
			c.Oblige("loopdec", lname, back.reach, ok, pos, "loop variant decreases and is bounded below")
		}
	}
	for _, p := range phis {
		f.env[p] = saved[p]
	}
	f.clearInner(L)
	c.W.stat(func() { c.W.stats.cut++ })
}

func (f *Frame) assumeAllocated(v *Val) {
	c := f.c
	lim := IntLitI(int64(birthBase + c.nextObj + 1))
	switch v.K {
	case KScalar:
		if v.T.Sort == SRef {
			c.Assume(TTrue, And(ILt(RefRoot(v.T), lim), ILe(IntLitI(0), RefRoot(v.T))), "loop-carried reference is allocated")
		}
	case KSlice:
		c.Assume(TTrue, And(ILt(RefRoot(v.Base), lim), ILe(IntLitI(0), RefRoot(v.Base))), "loop-carried slice is allocated")
	case KIface:
		c.Assume(TTrue, And(ILt(RefRoot(v.Pay), lim), ILe(IntLitI(0), RefRoot(v.Pay))), "loop-carried interface payload is allocated")
	case KTuple:
		for _, x := range v.F {
			f.assumeAllocated(x)
		}
	}
}

func (f *Frame) evalSpecBool(sc *Scope, cl Clause, where string) (t Term) {
	defer func() {
		if r := recover(); r != nil {
			if se, ok := r.(specErr); ok {
				panic(unsupported("%s:%d: %s %s: %s", f.contractFile(), cl.Line, where, cl.Name, se.msg))
			}
			panic(r)
		}
	}()
	return sc.evalBool(cl.E)
}

func (f *Frame) contractFile() string {
	if f.contract != nil {
		return f.contract.File
	}
	return "?"
}

// ---- top level ---------------------------------------------------------------------------------

type FuncResult struct {
	Contract *Contract
	Ctx      *Ctx
	Err      string
	nCases   int
	extra    []*Obligation
}

// verifyFunction generates the obligations of one function under contract.
// verifyFunction generates the obligations of a function under contract. With
// case splitting (contract `case` clauses or a property hook) the body is
// executed once per case under the case condition, with dead branches pruned;
// an extra obligation shows the cases are exhaustive.
func (w *World) verifyFunction(ct *Contract) *FuncResult {
	first := w.verifyCase(ct, 0)
	if first.Err != "" || first.nCases <= 1 {
		return first
	}
	for k := 1; k < first.nCases; k++ {
		r := w.verifyCase(ct, k)
		if r.Err != "" {
			first.Err = r.Err
			return first
		}
		first.Ctx.notes = append(first.Ctx.notes, r.Ctx.notes...)
		first.extra = append(first.extra, r.Ctx.obls...)
	}
	return first
}

type namedCase struct {
	name string
	cond Term
}

func (w *World) verifyCase(ct *Contract, caseIdx int) (res *FuncResult) {
	c := NewCtx(w, ct.IntMode)
	c.fn = ct.FullName()
	c.property = ct.Property
	if len(ct.Extra["fp"]) > 0 {
		c.floatFP = true
	}
	res = &FuncResult{Contract: ct, Ctx: c}
	defer func() {
		if r := recover(); r != nil {
			switch e := r.(type) {
			case unsupportedErr:
				res.Err = "outside-subset: " + e.msg
			case specErr:
				res.Err = "contract-error: " + e.msg
			default:
				// an internal error of the generator on this function: reported as "cannot be decided" for this
				// function instead of aborting the whole check
				res.Err = fmt.Sprintf("outside-subset: internal error while generating verification conditions: %v", r)
			}
		}
	}()
	fn := ct.Fn
	f := &Frame{c: c, fn: fn, env: map[ssa.Value]*Val{}, contract: ct, top: true}
	st := &State{reach: TTrue, mem: map[string]Term{}}
	for _, p := range fn.Params {
		v := c.freshVal("in."+p.Name(), p.Type())
		f.assumeInput(v)
		f.env[p] = v
	}
	for _, p := range fn.FreeVars {
		v := c.freshVal("fv."+p.Name(), p.Type())
		f.assumeInput(v)
		if v.K == KScalar && v.T.Sort == SRef {
			// a captured variable is the address of a live variable, never nil
			c.Assume(TTrue, Neq(v.T, TNull), "captured variable "+p.Name()+" is live")
			if st.nonnil == nil {
				st.nonnil = map[string]bool{}
			}
			st.nonnil[v.T.S] = true
		}
		f.env[p] = v
	}
	if hook := w.preHooks[ct.FullName()]; hook != nil {
		hook(f, st)
	}
	for _, h := range w.genericPre {
		h(f, st, ct)
	}
	sc := &Scope{c: c, fr: f, st: st, old: st, vars: map[string]*Val{}, pkg: fn.Pkg}
	for _, r := range ct.Requires {
		c.Assume(TTrue, f.evalSpecBool(sc.asAssumption(), r, "requires"), "requires "+r.Name)
	}
	// case splitting
	var cases []namedCase
	for i, cs := range ct.Extra["case"] {
		name, src := splitLabel(cs)
		if name == "" {
			name = fmt.Sprintf("c%d", i)
		}
		e, err := parseExpr(src)
		if err != nil {
			panic(sfail("case %s: %v", name, err))
		}
		cases = append(cases, namedCase{name, sc.evalBool(e)})
	}
	for _, h := range w.caseHooks {
		cases = append(cases, h(f, st, ct)...)
	}
	res.nCases = len(cases)
	caseSuffix := ""
	if len(cases) > 0 {
		if caseIdx == 0 {
			var all []Term
			for _, cs := range cases {
				all = append(all, cs.cond)
			}
			c.Oblige("cases", "exhaustive", TTrue, Or(all...), w.fset.Position(fn.Pos()), "the case split covers every input satisfying the precondition")
		}
		if caseIdx > 0 && !c.feasible(cases[caseIdx].cond) {
			// the precondition excludes this case: nothing to prove
			c.note("case %s is excluded by the precondition", cases[caseIdx].name)
			c.obls = nil
			return res
		}
		c.Assume(TTrue, cases[caseIdx].cond, "case "+cases[caseIdx].name)
		caseSuffix = "@" + cases[caseIdx].name
		c.caseSuffix = caseSuffix
		c.prune = true
		for _, h := range w.caseFactHooks {
			h(f, st, ct, cases[caseIdx].name)
		}
	}
	// every site named by an intermediate/site obligation must exist in the code
	for _, ca := range ct.CallAssert {
		n := 0
		for _, b := range fn.Blocks {
			for _, in := range b.Instrs {
				if ci, ok := in.(ssa.CallInstruction); ok {
					if strings.Contains(calleeLabel(ci.Common()), ca.Callee) {
						n++
					}
				}
			}
		}
		if ca.K >= n {
			panic(sfail("site obligation %s names call %d of %q, but the function has only %d such call(s)", ca.Cl.Name, ca.K, ca.Callee, n))
		}
	}
	if want := ct.Extra["returns"]; len(want) > 0 {
		// "returns N": the return-site obligations cover every way out of the function
		n := 0
		for _, b := range fn.Blocks {
			for _, in := range b.Instrs {
				if _, ok := in.(*ssa.Return); ok {
					n++
				}
			}
		}
		if w0, err := strconv.Atoi(strings.Fields(want[0])[0]); err != nil || w0 != n {
			panic(sfail("the contract covers %s return site(s), the function has %d", strings.Fields(want[0])[0], n))
		}
	}
	if len(ct.RetAssert) > 0 {
		n := 0
		for _, b := range fn.Blocks {
			for _, in := range b.Instrs {
				if _, ok := in.(*ssa.Return); ok {
					n++
				}
			}
		}
		for k := range ct.RetAssert {
			if k >= n {
				panic(sfail("intermediate assertion names return %d, but the function has only %d return(s)", k, n))
			}
		}
	}
	// vacuity guard: the precondition is satisfiable
	c.Cover("requires", TTrue, w.fset.Position(fn.Pos()))
	rst, results := f.runBody(st)
	post := &Scope{c: c, fr: f, st: rst, old: f.entry, vars: map[string]*Val{}, pkg: fn.Pkg}
	if len(results) > 0 {
		if len(results) == 1 {
			bindResults(post, fn, results[0])
		} else {
			bindResults(post, fn, &Val{K: KTuple, F: results, Ty: fn.Signature.Results()})
		}
	}
	pos := w.fset.Position(fn.Pos())
	if !rst.reach.IsFalse() {
		c.Cover("exit", rst.reach, pos)
	}
	inputs := f.inputTerms()
	resultTerms := map[string]Term{}
	for i, r := range results {
		if r.K == KScalar {
			resultTerms[fmt.Sprintf("%d", i)] = r.T
			if r.T.Sort == SRef && replayPossible(fn) {
				f.structResultTerms(resultTerms, fmt.Sprintf("%d", i), r, rst, 0)
			}
		}
	}
	for _, e := range ct.Ensures {
		t := f.evalSpecBool(post.asGoal(), e, "ensures")
		o := c.Oblige("ensures", e.Name, rst.reach, t, pos, e.Src)
		o.Inputs = inputs
		o.Results = resultTerms
	}
	if ct.ModGiven && len(ct.Extra["trustframe"]) > 0 {
		// "trustframe :: reason": the modifies clause is what callers assume, but it is not proved for this body
		// (listed as an assumption); the other obligations of the function are proved
		w.noteAssumed("frame of " + ct.FullName() + " (its modifies clause) is assumed, not proved: " + strings.Join(ct.Extra["trustframe"], "; "))
	} else if ct.ModGiven {
		f.frameObligations(rst, post, ct, pos)
	}
	for _, h := range w.genericPost {
		h(f, rst, ct, post)
	}
	return res
}

// structResultTerms: observable leaves of a pointer-to-struct result in the exit state
// (scalar fields, lengths of slice fields, nested struct pointers two levels deep).
func (f *Frame) structResultTerms(out map[string]Term, prefix string, r *Val, st *State, depth int) {
	c := f.c
	pt, ok := r.Ty.Underlying().(*types.Pointer)
	if !ok {
		return
	}
	stt, ok := pt.Elem().Underlying().(*types.Struct)
	if !ok {
		return
	}
	out[prefix+".nil"] = Eq(r.T, TNull)
	for i := 0; i < stt.NumFields(); i++ {
		fld := stt.Field(i)
		name := prefix + "." + fld.Name()
		ft := fld.Type()
		switch u := ft.Underlying().(type) {
		case *types.Basic:
			if scalarShape(ft) {
				out[name] = c.load(st, RefSub(r.T, i), ft).T
			}
		case *types.Slice:
			v := c.load(st, RefSub(r.T, i), ft)
			if v.K == KSlice {
				out[name+".len"] = v.Len
			}
		case *types.Pointer:
			if _, isStruct := u.Elem().Underlying().(*types.Struct); isStruct && depth < 2 {
				v := c.load(st, RefSub(r.T, i), ft)
				f.structResultTerms(out, name, v, st, depth+1)
			}
		}
	}
}

func (f *Frame) assumeInput(v *Val) {
	c := f.c
	lim := IntLitI(birthBase)
	switch v.K {
	case KScalar:
		if v.T.Sort == SRef {
			c.Assume(TTrue, And(ILt(RefRoot(v.T), lim), Or(Eq(v.T, TNull), ILe(IntLitI(1), RefRoot(v.T)))), "input reference is nil or an allocated object")
			c.oldRefs[v.T.S] = true
		}
	case KSlice:
		c.oldRefs[v.Base.S] = true
		c.Assume(TTrue, And(ILt(RefRoot(v.Base), lim), ILe(IntLitI(0), RefRoot(v.Base))), "input slice is allocated")
	case KIface:
		c.Assume(TTrue, And(ILt(RefRoot(v.Pay), lim), ILe(IntLitI(0), RefRoot(v.Pay)), ILe(IntLitI(0), v.Tag)), "input interface payload is allocated")
		c.Assume(TTrue, Implies(Eq(v.Tag, IntLitI(0)), Eq(v.Pay, TNull)), "nil interface has nil payload")
	case KTuple:
		for _, x := range v.F {
			f.assumeInput(x)
		}
	}
}

// frameObligations: every cell not listed in modifies (and not freshly allocated) keeps its value.
func (f *Frame) frameObligations(rst *State, post *Scope, ct *Contract, pos interface{}) {
	c := f.c
	pre := &Scope{c: c, fr: f, st: f.entry, old: f.entry, vars: post.vars, pkg: post.pkg}
	var locs []Loc
	ghostOK := map[string]bool{}
	for _, le := range ct.Modifies {
		l := pre.evalLoc(le)
		if l.kind == "ghost" {
			ghostOK[l.name] = true
			continue
		}
		locs = append(locs, l)
	}
	var names []string
	for n := range rst.mem {
		names = append(names, n)
	}
	sort.Strings(names)
	p := c.W.fset.Position(f.fn.Pos())
	for _, n := range names {
		final := rst.mem[n]
		init, ok := c.memInit[n]
		if !ok || final.S == init.S {
			continue
		}
		if strings.HasPrefix(n, "G_") {
			if !ghostOK[n] {
				c.Oblige("frame", n, rst.reach, Eq(final, init), p, "ghost state "+n+" is not in modifies")
			}
			continue
		}
		if strings.HasPrefix(n, "MAP") {
			var allowed []Term
			r := c.Fresh("frame.m", SRef)
			for _, l := range locs {
				if l.kind == "mapall" && strings.Contains(n, typeKey(l.ty)) {
					allowed = append(allowed, Eq(r, l.addr))
				}
			}
			allowed = append(allowed, ILe(IntLitI(birthBase), RefRoot(r)))
			c.groundFrames(final, r)
			c.Oblige("frame", n, rst.reach, Or(append(allowed, Eq(Select(final, r), Select(init, r)))...), p, "map contents outside modifies are unchanged")
			continue
		}
		if strings.HasPrefix(n, "E_") {
			r := c.Fresh("frame.arr", SRef)
			ix := c.Fresh("frame.idx", c.idxSort)
			var allowed []Term
			for _, l := range locs {
				switch l.kind {
				case "cell":
					if isAggregate(l.ty) {
						allowed = append(allowed, underTerm(r.S, l.addr))
					} else if arr, idx, ok := c.splitElem(l.addr); ok && c.memHoldsE(n, l.ty) {
						allowed = append(allowed, And(Eq(r, arr), Eq(ix, idx)))
					}
				case "under":
					allowed = append(allowed, underTerm(r.S, l.addr))
				case "elems":
					if isAggregate(l.ty) {
						allowed = append(allowed, c.elemsTerm(r.S, l.sl, true))
					} else if c.memHoldsE(n, l.ty) {
						allowed = append(allowed, And(Eq(r, l.sl.Base), c.idxLe(l.sl.Off, ix), c.idxLt(ix, c.idxAdd(l.sl.Off, l.sl.Len))))
					}
				}
			}
			allowed = append(allowed, ILe(IntLitI(birthBase), RefRoot(r)))
			_, inner := arrSorts(c.memSort[n])
			_, evs := arrSorts(inner)
			c.groundCopies(final, ix, evs)
			c.groundFrames(final, r)
			c.Oblige("frame", n, rst.reach, Or(append(allowed, Eq(Select(Select(final, r), ix), Select(Select(init, r), ix)))...), p,
				"elements of "+n+" outside the modifies clause are unchanged")
			continue
		}
		r := c.Fresh("frame.r", SRef)
		var allowed []Term
		for _, l := range locs {
			switch l.kind {
			case "cell":
				if isAggregate(l.ty) {
					allowed = append(allowed, underTerm(r.S, l.addr))
				} else if c.memHolds(n, l.ty) {
					allowed = append(allowed, Eq(r, l.addr))
				}
			case "under":
				allowed = append(allowed, underTerm(r.S, l.addr))
			case "elems":
				if isAggregate(l.ty) {
					allowed = append(allowed, c.elemsTerm(r.S, l.sl, false))
				}
			}
		}
		allowed = append(allowed, ILe(IntLitI(birthBase), RefRoot(r)))
		c.groundFrames(final, r)
		c.usesQuant = true
		c.Oblige("frame", n, rst.reach, Or(append(allowed, Eq(Select(final, r), Select(init, r)))...), p,
			"cells of "+n+" outside the modifies clause are unchanged")
	}
}

func (c *Ctx) memHoldsE(mem string, t types.Type) bool {
	if isAggregate(t) {
		return true
	}
	for _, l := range c.cellLeaves(t) {
		if "E"+(c.memName(t) + l.suffix)[1:] == mem {
			return true
		}
	}
	return false
}

func (c *Ctx) memHolds(mem string, t types.Type) bool {
	if isAggregate(t) {
		return true
	}
	for _, l := range c.cellLeaves(t) {
		if c.memName(t)+l.suffix == mem {
			return true
		}
	}
	return false
}

// valTerms lists the solver-level components of a value.
func valTerms(v *Val) []Term {
	if v == nil {
		return nil
	}
	switch v.K {
	case KScalar:
		return []Term{v.T}
	case KSlice:
		return []Term{v.Base, v.Off, v.Len, v.Cap}
	case KIface:
		return []Term{v.Tag, v.Pay}
	case KTuple:
		var out []Term
		for _, x := range v.F {
			out = append(out, valTerms(x)...)
		}
		return out
	}
	return nil
}

// loopFree: the term does not depend on the loop-carried values of the cut loops. Where none of their
// symbols occurs in the fully expanded term this holds by construction; otherwise the claim is the
// obligation that the term keeps its value when those symbols are replaced by fresh unconstrained ones.
func (f *Frame) loopFree(t Term) Term {
	c := f.c
	if len(f.cutCarried) == 0 {
		return TTrue
	}
	full := t.S
	for k := 0; k < 40; k++ {
		n := c.expandDefs(full, 0)
		if n == full || len(n) > 4<<20 {
			full = n
			break
		}
		full = n
	}
	subst := map[string]string{}
	for _, h := range f.cutCarried {
		if h.S == "" || strings.ContainsAny(h.S, " (") {
			continue
		}
		subst[h.S] = ""
	}
	hit := false
	var sb strings.Builder
	i := 0
	for i < len(full) {
		ch := full[i]
		if ch == '(' || ch == ')' || ch == ' ' {
			sb.WriteByte(ch)
			i++
			continue
		}
		j := i
		for j < len(full) && full[j] != '(' && full[j] != ')' && full[j] != ' ' {
			j++
		}
		tok := full[i:j]
		if r, ok := subst[tok]; ok {
			if r == "" {
				for _, h := range f.cutCarried {
					if h.S == tok {
						r = c.Fresh("lf."+tok, h.Sort).S
					}
				}
				subst[tok] = r
			}
			sb.WriteString(r)
			hit = true
		} else {
			sb.WriteString(tok)
		}
		i = j
	}
	if !hit {
		return TTrue
	}
	return Eq(t, raw(sb.String(), t.Sort))
}
