package main

// Replay of solver counterexamples against the real code: a Go test is injected
// into the package with `go test -overlay` (nothing is written to /repo), the
// real function is run on the model's inputs, and the observed results are fed
// back to the solver, which evaluates the failed obligation on them.

import (
	"encoding/json"
	"fmt"
	"go/types"
	"math/big"
	"os"
	"os/exec"
	"path/filepath"
	"regexp"
	"sort"
	"strings"

	"golang.org/x/tools/go/ssa"
)

type ReplayResult struct {
	Reproduced bool              `json:"reproduced"`
	Inputs     map[string]string `json:"inputs,omitempty"`
	Observed   map[string]string `json:"observed,omitempty"`
	TestFile   string            `json:"test_file,omitempty"`
	TestSource string            `json:"test_source,omitempty"`
	Output     string            `json:"output,omitempty"`
	Reason     string            `json:"reason,omitempty"`
}

// parseModel reads "((name value) (name value) ...)" from get-value output.
func parseModel(out string) map[string]string {
	m := map[string]string{}
	i := strings.Index(out, "((")
	if i < 0 {
		return m
	}
	s := out[i+1:]
	// split top-level pairs
	depth := 0
	start := -1
	for k, c := range s {
		switch c {
		case '(':
			if depth == 0 {
				start = k
			}
			depth++
		case ')':
			depth--
			if depth == 0 && start >= 0 {
				pair := strings.TrimSpace(s[start+1 : k])
				sp := -1
				if strings.HasPrefix(pair, "(") {
					// the term is itself an s-expression: find its end
					d := 0
					for j, ch := range pair {
						if ch == '(' {
							d++
						} else if ch == ')' {
							d--
							if d == 0 {
								sp = j + 1
								break
							}
						}
					}
				} else {
					sp = strings.IndexAny(pair, " \n")
				}
				if sp > 0 && sp < len(pair) {
					m[normWS(pair[:sp])] = strings.TrimSpace(pair[sp:])
				}
				start = -1
			}
			if depth < 0 {
				return m
			}
		}
	}
	return m
}

// normWS collapses whitespace so that solver-printed terms compare equal to generated ones.
func normWS(t string) string {
	return strings.Join(strings.Fields(t), " ")
}

func smtValueToBig(v string) (*big.Int, bool) {
	v = strings.TrimSpace(v)
	switch {
	case strings.HasPrefix(v, "#x"):
		n, ok := new(big.Int).SetString(v[2:], 16)
		return n, ok
	case strings.HasPrefix(v, "#b"):
		n, ok := new(big.Int).SetString(v[2:], 2)
		return n, ok
	case strings.HasPrefix(v, "(- "):
		n, ok := new(big.Int).SetString(strings.TrimSuffix(strings.TrimPrefix(v, "(- "), ")"), 10)
		if ok {
			n.Neg(n)
		}
		return n, ok
	case strings.HasPrefix(v, "(_ bv"):
		f := strings.Fields(strings.Trim(v, "()"))
		n, ok := new(big.Int).SetString(strings.TrimPrefix(f[1], "bv"), 10)
		return n, ok
	}
	n, ok := new(big.Int).SetString(v, 10)
	return n, ok
}

// goLiteral renders a model value as a Go expression of type t.
func goLiteral(v string, t types.Type, qual types.Qualifier) (string, bool) {
	ts := types.TypeString(t, qual)
	if b, ok := t.Underlying().(*types.Basic); ok {
		switch {
		case b.Kind() == types.Bool:
			return ts + "(" + v + ")", v == "true" || v == "false"
		case b.Kind() == types.Float32:
			n, ok := smtValueToBig(v)
			if !ok {
				return "", false
			}
			return fmt.Sprintf("%s(math.Float32frombits(0x%x))", ts, n), true
		case b.Kind() == types.Float64:
			n, ok := smtValueToBig(v)
			if !ok {
				return "", false
			}
			return fmt.Sprintf("%s(math.Float64frombits(0x%x))", ts, n), true
		}
		if w, signed, ok := basicWidth(b); ok {
			n, ok := smtValueToBig(v)
			if !ok {
				return "", false
			}
			if signed && strings.HasPrefix(v, "#") && n.Bit(w-1) == 1 {
				n = new(big.Int).Sub(n, pow2(w))
			}
			return fmt.Sprintf("%s(%s)", ts, n.String()), true
		}
	}
	return "", false
}

// replayDumpHelper prints the observable leaves of a struct pointer (same naming as structResultTerms).
const replayDumpHelper = `func gocvDump(prefix string, v reflect.Value, depth int) {
	switch v.Kind() {
	case reflect.Ptr:
		if v.Type().Elem().Kind() != reflect.Struct || depth > 2 {
			return
		}
		fmt.Printf("GOCV_RESULT %s.nil %v\n", prefix, v.IsNil())
		if v.IsNil() {
			return
		}
		e := v.Elem()
		for i := 0; i < e.NumField(); i++ {
			f := e.Field(i)
			name := prefix + "." + e.Type().Field(i).Name
			switch f.Kind() {
			case reflect.Ptr:
				gocvDump(name, f, depth+1)
			case reflect.Slice:
				fmt.Printf("GOCV_RESULT %s.len %d\n", name, f.Len())
			case reflect.Bool:
				fmt.Printf("GOCV_RESULT %s %v\n", name, f.Bool())
			case reflect.Int, reflect.Int8, reflect.Int16, reflect.Int32, reflect.Int64:
				fmt.Printf("GOCV_RESULT %s %d\n", name, f.Int())
			case reflect.Uint, reflect.Uint8, reflect.Uint16, reflect.Uint32, reflect.Uint64, reflect.Uintptr:
				fmt.Printf("GOCV_RESULT %s %d\n", name, f.Uint())
			case reflect.Float32:
				fmt.Printf("GOCV_RESULT %s %d\n", name, math.Float32bits(float32(f.Float())))
			case reflect.Float64:
				fmt.Printf("GOCV_RESULT %s %d\n", name, math.Float64bits(f.Float()))
			}
		}
	}
}

`

func structPtr(t types.Type) bool {
	p, ok := t.Underlying().(*types.Pointer)
	if !ok {
		return false
	}
	_, ok = p.Elem().Underlying().(*types.Struct)
	return ok
}

// sliceLiteral renders an integer-slice input from the model (length, then the reported leading elements).
func sliceLiteral(ob *Obligation, model map[string]string, name string, sl *types.Slice, t types.Type, qual types.Qualifier) (string, string) {
	lt, ok := ob.Inputs[name+".len"]
	if !ok {
		return "", "model has no length for " + name
	}
	lv, ok := model[lt.S]
	if !ok {
		if !lt.IsConst() {
			return "", "model has no value for " + lt.S
		}
		lv = lt.S
	}
	n, ok := smtValueToBig(lv)
	if !ok || !n.IsInt64() {
		return "", "cannot render length " + lv
	}
	max := replaySliceElems(sl.Elem())
	if n.Int64() > int64(max) {
		return "", fmt.Sprintf("model input %s has %d elements; only inputs of up to %d elements are constructed", name, n.Int64(), max)
	}
	if bt, ok := ob.Inputs[name+".base"]; ok {
		if bv, ok := model[bt.S]; ok && strings.TrimSpace(bv) == TNull.S && n.Int64() == 0 {
			return types.TypeString(t, qual) + "(nil)", ""
		}
	}
	var elems []string
	for i := int64(0); i < n.Int64(); i++ {
		et, ok := ob.Inputs[fmt.Sprintf("%s[%d]", name, i)]
		if !ok {
			return "", "model has no element term"
		}
		ev, ok := model[et.S]
		if !ok {
			if !et.IsConst() {
				return "", "model has no value for " + et.S
			}
			ev = et.S
		}
		x, ok := smtValueToBig(ev)
		if !ok {
			return "", "cannot render " + ev
		}
		if w, signed, _ := intInfo(sl.Elem()); signed && x.Bit(w-1) == 1 {
			x = new(big.Int).Sub(x, pow2(w))
		}
		elems = append(elems, x.String())
	}
	return types.TypeString(t, qual) + "{" + strings.Join(elems, ", ") + "}", ""
}

func scalarShape(t types.Type) bool {
	b, ok := t.Underlying().(*types.Basic)
	if !ok {
		return false
	}
	if _, _, ok := basicWidth(b); ok {
		return true
	}
	switch b.Kind() {
	case types.Bool, types.Float32, types.Float64:
		return true
	}
	return false
}

func tryReplay(w *World, o checkOpts, ob *Obligation) *ReplayResult {
	if h := w.replayHooks[ob.Func]; h != nil {
		return h(w, o, ob)
	}
	ct := w.contractByName(ob.Func)
	if ct == nil || ct.Fn == nil {
		return &ReplayResult{Reason: "no function bound to obligation"}
	}
	if len(ct.Extra["isa"]) > 0 && ob.Kind == "isa" {
		return isaReplay(w, o, ob, ct)
	}
	fn := ct.Fn
	if !replayPossible(fn) {
		return &ReplayResult{Reason: "input shape not constructible: receiver, closure or a parameter that is neither a scalar nor an integer slice"}
	}
	res := fn.Signature.Results()
	for i := 0; i < res.Len(); i++ {
		if !scalarShape(res.At(i).Type()) && !structPtr(res.At(i).Type()) {
			return &ReplayResult{Reason: "result shape not observable: " + res.At(i).Type().String()}
		}
	}
	// prefer a model whose slice inputs are short enough to be constructed in full
	var small []string
	for _, p := range fn.Params {
		if sl, ok := p.Type().Underlying().(*types.Slice); ok {
			if lt, ok := ob.Inputs[p.Name()+".len"]; ok && isBV(lt.Sort) {
				n := replaySliceElems(sl.Elem())
				small = append(small, fmt.Sprintf("(assert (bvule %s %s))", lt.S, BVLitI(int64(n), bvWidth(lt.Sort)).S))
				if ct, ok := ob.Inputs[p.Name()+".cap"]; ok {
					small = append(small, fmt.Sprintf("(assert (= %s %s))", ct.S, lt.S))
				}
			}
		}
	}
	modelText := ob.Model
	if len(small) > 0 {
		q := strings.Replace(ob.Query(true), "(check-sat)", strings.Join(small, "\n")+"\n(check-sat)", 1)
		if v := decide(q, 20, false); v.Answer == "sat" {
			modelText = v.Output
		}
	}
	model := parseModel(modelText)
	qual := func(p *types.Package) string {
		if p == fn.Pkg.Pkg {
			return ""
		}
		return p.Name()
	}
	rr := &ReplayResult{Inputs: map[string]string{}, Observed: map[string]string{}}
	var args []string
	for _, p := range fn.Params {
		if sl, ok := p.Type().Underlying().(*types.Slice); ok {
			lit, why := sliceLiteral(ob, model, p.Name(), sl, p.Type(), qual)
			if lit == "" {
				return &ReplayResult{Reason: why}
			}
			rr.Inputs[p.Name()] = lit
			args = append(args, lit)
			continue
		}
		term, ok := ob.Inputs[p.Name()]
		if !ok {
			return &ReplayResult{Reason: "model has no value for " + p.Name()}
		}
		val, ok := model[term.S]
		if !ok {
			if term.IsConst() {
				val = term.S
			} else {
				return &ReplayResult{Reason: "model has no value for " + term.S}
			}
		}
		lit, ok := goLiteral(val, p.Type(), qual)
		if !ok {
			return &ReplayResult{Reason: "cannot render " + val}
		}
		rr.Inputs[p.Name()] = lit
		args = append(args, lit)
	}
	var sb strings.Builder
	fmt.Fprintf(&sb, "package %s\n\nimport (\n\t\"fmt\"\n\t\"math\"\n\t\"reflect\"\n\t\"testing\"\n)\n\nvar _ = math.Pi\nvar _ = reflect.TypeOf\n\n", fn.Pkg.Pkg.Name())
	sb.WriteString(replayDumpHelper)
	fmt.Fprintf(&sb, "func TestGocvReplay(t *testing.T) {\n\tdefer func() {\n\t\tif r := recover(); r != nil {\n\t\t\tfmt.Printf(\"GOCV_PANIC %%v\\n\", r)\n\t\t}\n\t}()\n")
	var lhs []string
	for i := 0; i < res.Len(); i++ {
		lhs = append(lhs, fmt.Sprintf("r%d", i))
	}
	callExpr := fmt.Sprintf("%s(%s)", fn.Name(), strings.Join(args, ", "))
	if len(lhs) > 0 {
		fmt.Fprintf(&sb, "\t%s := %s\n", strings.Join(lhs, ", "), callExpr)
	} else {
		fmt.Fprintf(&sb, "\t%s\n", callExpr)
	}
	for i := 0; i < res.Len(); i++ {
		rt := res.At(i).Type()
		if structPtr(rt) {
			fmt.Fprintf(&sb, "\tgocvDump(\"%d\", reflect.ValueOf(r%d), 0)\n", i, i)
			continue
		}
		b := rt.Underlying().(*types.Basic)
		switch b.Kind() {
		case types.Bool:
			fmt.Fprintf(&sb, "\tfmt.Printf(\"GOCV_RESULT %d %%v\\n\", r%d)\n", i, i)
		case types.Float32:
			fmt.Fprintf(&sb, "\tfmt.Printf(\"GOCV_RESULT %d %%d\\n\", math.Float32bits(float32(r%d)))\n", i, i)
		case types.Float64:
			fmt.Fprintf(&sb, "\tfmt.Printf(\"GOCV_RESULT %d %%d\\n\", math.Float64bits(float64(r%d)))\n", i, i)
		default:
			fmt.Fprintf(&sb, "\tfmt.Printf(\"GOCV_RESULT %d %%d\\n\", r%d)\n", i, i)
		}
	}
	sb.WriteString("\tfmt.Println(\"GOCV_DONE\")\n}\n")
	rr.TestSource = sb.String()
	pkgDir := filepath.Join(o.repo, strings.TrimPrefix(ct.PkgPath, "github.com/sarchlab/mgpusim/v4/"))
	out, err := runOverlayTest(o, pkgDir, sb.String(), ob.Name)
	rr.Output = trunc(out, 3000)
	if err != nil && !strings.Contains(out, "GOCV_") {
		rr.Reason = "replay test did not run: " + err.Error()
		return rr
	}
	if strings.Contains(out, "GOCV_PANIC") {
		m := regexp.MustCompile(`GOCV_PANIC (.*)`).FindStringSubmatch(out)
		rr.Observed["panic"] = m[1]
		if ob.Kind == "nopanic" {
			rr.Reproduced = true
		} else {
			rr.Reason = "real function panicked on the model input"
		}
		return rr
	}
	if ob.Kind == "nopanic" {
		rr.Reason = "real function did not panic on the model input"
		return rr
	}
	// evaluate the failed obligation on the observed results
	var pins []string
	names := make([]string, 0, len(ob.Inputs))
	for k := range ob.Inputs {
		names = append(names, k)
	}
	sort.Strings(names)
	for _, k := range names {
		t := ob.Inputs[k]
		if v, ok := model[t.S]; ok {
			pins = append(pins, fmt.Sprintf("(assert (= %s %s))", t.S, v))
		}
	}
	for _, m := range regexp.MustCompile(`GOCV_RESULT (\S+) (\S+)`).FindAllStringSubmatch(out, -1) {
		rt, ok := ob.Results[m[1]]
		if !ok {
			continue
		}
		rr.Observed["result"+m[1]] = m[2]
		var lit string
		switch {
		case rt.Sort == SBool:
			lit = m[2]
		case rt.Sort == SInt:
			n, _ := new(big.Int).SetString(m[2], 10)
			lit = IntLit(n).S
		default:
			n, ok := new(big.Int).SetString(m[2], 10)
			if !ok {
				n = big.NewInt(0)
				if m[2] == "true" {
					n = big.NewInt(1)
				}
			}
			if n.Sign() < 0 {
				n = new(big.Int).Add(n, pow2(bvWidth(rt.Sort)))
			}
			lit = BVLit(n, bvWidth(rt.Sort)).S
		}
		pins = append(pins, fmt.Sprintf("(assert (= %s %s))", rt.S, lit))
	}
	q := ob.Query(false)
	q = strings.Replace(q, "(check-sat)", strings.Join(pins, "\n")+"\n(check-sat)", 1)
	v := decide(q, 30, false)
	switch v.Answer {
	case "sat":
		rr.Reproduced = true
	case "unsat":
		rr.Reason = "observed results of the real function satisfy the obligation or contradict the engine's semantics (spurious counterexample)"
	default:
		rr.Reason = "solver could not evaluate the obligation on the observed results"
	}
	return rr
}

// runOverlayTest injects test source into pkgDir (hiding the package's own
// test files, several of which do not compile at the pinned commit) and runs it.
func runOverlayTest(o checkOpts, pkgDir, src, name string) (string, error) {
	return runOverlayTestNamed(o, pkgDir, src, name, "TestGocvReplay")
}

func runOverlayTestNamed(o checkOpts, pkgDir, src, name, testName string) (string, error) {
	tmp := filepath.Join(o.verif, ".cache", "replay", sanitize(name))
	os.MkdirAll(tmp, 0o755)
	tf := filepath.Join(tmp, "zz_gocv_replay_test.go")
	os.WriteFile(tf, []byte(src), 0o644)
	repl := map[string]string{filepath.Join(pkgDir, "zz_gocv_replay_test.go"): tf}
	ents, _ := os.ReadDir(pkgDir)
	for _, e := range ents {
		if strings.HasSuffix(e.Name(), "_test.go") {
			repl[filepath.Join(pkgDir, e.Name())] = ""
		}
	}
	for k, v := range o.overlayFiles {
		repl[k] = v
	}
	ov, _ := json.Marshal(map[string]interface{}{"Replace": repl})
	ovf := filepath.Join(tmp, "overlay.json")
	os.WriteFile(ovf, ov, 0o644)
	cmd := exec.Command("go", "test", "-overlay", ovf, "-vet=off", "-count=1", "-timeout", "60s", "-run", testName, "-v", ".")
	cmd.Dir = pkgDir
	cmd.Env = append(os.Environ(), "GOFLAGS=-mod=mod", "GOPROXY=off")
	out, err := cmd.CombinedOutput()
	return string(out), err
}

func (w *World) contractByName(full string) *Contract {
	for _, c := range w.contracts {
		if c.FullName() == full {
			return c
		}
	}
	return nil
}

var _ = ssa.NewProgram
