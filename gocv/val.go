package main

// Symbolic Go values and the typed heap.

import (
	"fmt"
	"go/constant"
	"go/types"
	"math"
	"math/big"

	"golang.org/x/tools/go/ssa"
)

type Kind int

const (
	KScalar Kind = iota
	KTuple       // struct values, array values, multi-value results
	KSlice
	KIface
	KFunc
)

type Val struct {
	K                   Kind
	Ty                  types.Type
	T                   Term   // scalar
	F                   []*Val // tuple
	Base, Off, Len, Cap Term   // slice: elements live at elem(Base, Off+i)
	Tag, Pay            Term   // interface: dynamic type tag (Int), payload (Ref)
	Fn                  *ssa.Function
	Binds               []*Val
}

func scalar(t Term, ty types.Type) *Val { return &Val{K: KScalar, T: t, Ty: ty} }

func (c *Ctx) idxLit(i int64) Term {
	if c.intMode {
		return IntLitI(i)
	}
	return BVLitI(i, 64)
}
func (c *Ctx) idxAdd(a, b Term) Term {
	if c.intMode {
		return IAdd(a, b)
	}
	return BVAdd(a, b)
}
func (c *Ctx) idxSub(a, b Term) Term {
	if c.intMode {
		return ISub(a, b)
	}
	return BVSub(a, b)
}

// signed comparisons on index-sorted (Go int) terms
func (c *Ctx) idxLt(a, b Term) Term {
	if c.intMode {
		return ILt(a, b)
	}
	return BVSlt(a, b)
}
func (c *Ctx) idxLe(a, b Term) Term {
	if c.intMode {
		return ILe(a, b)
	}
	return BVSle(a, b)
}

func (c *Ctx) intLit(v *big.Int, w int) Term {
	if c.intMode {
		return IntLit(v)
	}
	return BVLit(v, w)
}

// typeTag returns the Int tag identifying a dynamic type.
func (c *Ctx) typeTag(t types.Type) Term {
	return IntLitI(int64(c.W.tagOf(t)))
}

func (c *Ctx) strLit(s string) Term {
	if t, ok := c.strLits[s]; ok {
		return t
	}
	n := c.fresh("str")
	c.decls = append(c.decls, fmt.Sprintf("(declare-const %s Str) ; %q", n, trunc(s, 40)))
	t := raw(n, SStr)
	c.strLits[s] = t
	// distinctness from earlier literals
	for _, o := range sortedKeys(c.strLits) {
		if o != s {
			c.Assume(TTrue, Neq(t, c.strLits[o]), "distinct string literals")
		}
	}
	return t
}

func trunc(s string, n int) string {
	if len(s) > n {
		return s[:n]
	}
	return s
}

// zero value of a Go type
func (c *Ctx) zero(t types.Type) *Val {
	switch u := t.Underlying().(type) {
	case *types.Basic:
		if w, _, ok := basicWidth(u); ok {
			return scalar(c.intLit(big.NewInt(0), w), t)
		}
		switch u.Kind() {
		case types.Bool, types.UntypedBool:
			return scalar(TFalse, t)
		case types.Float32:
			return scalar(BVLitI(0, 32), t)
		case types.Float64, types.UntypedFloat:
			return scalar(BVLitI(0, 64), t)
		case types.String, types.UntypedString:
			return scalar(c.strLit(""), t)
		case types.UnsafePointer, types.UntypedNil:
			return scalar(TNull, t)
		}
	case *types.Pointer, *types.Map, *types.Chan, *types.Signature:
		return scalar(TNull, t)
	case *types.Slice:
		z := c.idxLit(0)
		return &Val{K: KSlice, Ty: t, Base: TNull, Off: z, Len: z, Cap: z}
	case *types.Interface:
		return &Val{K: KIface, Ty: t, Tag: IntLitI(0), Pay: TNull}
	case *types.Struct:
		v := &Val{K: KTuple, Ty: t}
		for i := 0; i < u.NumFields(); i++ {
			v.F = append(v.F, c.zero(u.Field(i).Type()))
		}
		return v
	case *types.Array:
		if u.Len() > 128 {
			panic(unsupported("array value of length %d", u.Len()))
		}
		v := &Val{K: KTuple, Ty: t}
		for i := int64(0); i < u.Len(); i++ {
			v.F = append(v.F, c.zero(u.Elem()))
		}
		return v
	case *types.Tuple:
		v := &Val{K: KTuple, Ty: t}
		for i := 0; i < u.Len(); i++ {
			v.F = append(v.F, c.zero(u.At(i).Type()))
		}
		return v
	}
	panic(unsupported("zero value of %s", t))
}

// freshVal makes an unconstrained value of a Go type (with type-range
// assumptions in int mode).
func (c *Ctx) freshVal(prefix string, t types.Type) *Val {
	switch u := t.Underlying().(type) {
	case *types.Slice:
		v := &Val{K: KSlice, Ty: t, Base: c.Fresh(prefix+".base", SRef), Off: c.Fresh(prefix+".off", c.idxSort),
			Len: c.Fresh(prefix+".len", c.idxSort), Cap: c.Fresh(prefix+".cap", c.idxSort)}
		c.assumeSliceWF(v)
		return v
	case *types.Interface:
		v := &Val{K: KIface, Ty: t, Tag: c.Fresh(prefix+".tag", SInt), Pay: c.Fresh(prefix+".pay", SRef)}
		// a nil interface has neither a type nor a payload
		c.Assume(TTrue, And(ILe(IntLitI(0), v.Tag), Implies(Eq(v.Tag, IntLitI(0)), Eq(v.Pay, TNull))), "interface value well-formed")
		return v
	case *types.Struct:
		v := &Val{K: KTuple, Ty: t}
		for i := 0; i < u.NumFields(); i++ {
			v.F = append(v.F, c.freshVal(prefix+"."+u.Field(i).Name(), u.Field(i).Type()))
		}
		return v
	case *types.Array:
		if u.Len() > 128 {
			panic(unsupported("array value of length %d", u.Len()))
		}
		v := &Val{K: KTuple, Ty: t}
		for i := int64(0); i < u.Len(); i++ {
			v.F = append(v.F, c.freshVal(fmt.Sprintf("%s.%d", prefix, i), u.Elem()))
		}
		return v
	case *types.Tuple:
		v := &Val{K: KTuple, Ty: t}
		for i := 0; i < u.Len(); i++ {
			v.F = append(v.F, c.freshVal(fmt.Sprintf("%s.%d", prefix, i), u.At(i).Type()))
		}
		return v
	}
	s := c.scalarSort(t)
	if s == "" {
		panic(unsupported("fresh value of %s", t))
	}
	v := scalar(c.Fresh(prefix, s), t)
	c.assumeRange(v)
	return v
}

// assumeRange adds the type-range assumption of an integer in int mode.
func (c *Ctx) assumeRange(v *Val) {
	if !c.intMode || v.K != KScalar {
		return
	}
	if w, signed, ok := intInfo(v.Ty); ok {
		lo, hi := typeRange(w, signed)
		c.Assume(TTrue, And(ILe(IntLit(lo), v.T), ILe(v.T, IntLit(hi))), "type range")
	}
}

func typeRange(w int, signed bool) (*big.Int, *big.Int) {
	if signed {
		hi := new(big.Int).Lsh(big.NewInt(1), uint(w-1))
		lo := new(big.Int).Neg(hi)
		return lo, hi.Sub(hi, big.NewInt(1))
	}
	hi := new(big.Int).Lsh(big.NewInt(1), uint(w))
	return big.NewInt(0), hi.Sub(hi, big.NewInt(1))
}

func (c *Ctx) assumeSliceWF(v *Val) {
	z := c.idxLit(0)
	// 0 <= off, 0 <= len <= cap, off+cap does not overflow (cap < 2^48 keeps
	// bit-vector index arithmetic exact; Go cannot allocate more)
	lim := c.idxLit(1 << 48)
	c.Assume(TTrue, And(c.idxLe(z, v.Off), c.idxLe(z, v.Len), c.idxLe(v.Len, v.Cap),
		c.idxLt(v.Cap, lim), c.idxLt(v.Off, lim)), "slice header well-formed")
	// a nil base has no elements
	c.Assume(TTrue, Implies(Eq(v.Base, TNull), And(Eq(v.Len, z), Eq(v.Cap, z))), "nil slice is empty")
}

// ite-merge of two values of the same shape
func (c *Ctx) iteVal(cond Term, a, b *Val) *Val {
	if a == b || cond.IsTrue() {
		return a
	}
	if cond.IsFalse() {
		return b
	}
	if a == nil || b == nil {
		panic(unsupported("merge of missing value"))
	}
	switch a.K {
	case KScalar:
		if b.K != KScalar {
			panic(unsupported("merge of differently shaped values"))
		}
		return &Val{K: KScalar, Ty: a.Ty, T: Ite(cond, a.T, b.T)}
	case KTuple:
		v := &Val{K: KTuple, Ty: a.Ty}
		for i := range a.F {
			v.F = append(v.F, c.iteVal(cond, a.F[i], b.F[i]))
		}
		return v
	case KSlice:
		return &Val{K: KSlice, Ty: a.Ty, Base: Ite(cond, a.Base, b.Base), Off: Ite(cond, a.Off, b.Off),
			Len: Ite(cond, a.Len, b.Len), Cap: Ite(cond, a.Cap, b.Cap)}
	case KIface:
		return &Val{K: KIface, Ty: a.Ty, Tag: Ite(cond, a.Tag, b.Tag), Pay: Ite(cond, a.Pay, b.Pay)}
	case KFunc:
		if a.Fn == b.Fn && len(a.Binds) == len(b.Binds) {
			v := &Val{K: KFunc, Ty: a.Ty, Fn: a.Fn}
			for i := range a.Binds {
				v.Binds = append(v.Binds, c.iteVal(cond, a.Binds[i], b.Binds[i]))
			}
			return v
		}
	}
	panic(unsupported("merge of function values"))
}

func valEq(a, b *Val) bool {
	if a == b {
		return true
	}
	if a == nil || b == nil || a.K != b.K {
		return false
	}
	switch a.K {
	case KScalar:
		return a.T.S == b.T.S
	case KTuple:
		if len(a.F) != len(b.F) {
			return false
		}
		for i := range a.F {
			if !valEq(a.F[i], b.F[i]) {
				return false
			}
		}
		return true
	case KSlice:
		return a.Base.S == b.Base.S && a.Off.S == b.Off.S && a.Len.S == b.Len.S && a.Cap.S == b.Cap.S
	case KIface:
		return a.Tag.S == b.Tag.S && a.Pay.S == b.Pay.S
	case KFunc:
		if a.Fn != b.Fn || len(a.Binds) != len(b.Binds) {
			return false
		}
		for i := range a.Binds {
			if !valEq(a.Binds[i], b.Binds[i]) {
				return false
			}
		}
		return true
	}
	return false
}

// defVal names the components of a value (sharing).
func (c *Ctx) defVal(prefix string, v *Val) *Val {
	switch v.K {
	case KScalar:
		return &Val{K: KScalar, Ty: v.Ty, T: c.Def(prefix, v.T)}
	case KTuple:
		n := &Val{K: KTuple, Ty: v.Ty}
		for i, f := range v.F {
			n.F = append(n.F, c.defVal(fmt.Sprintf("%s.%d", prefix, i), f))
		}
		return n
	case KSlice:
		return &Val{K: KSlice, Ty: v.Ty, Base: c.Def(prefix+".b", v.Base), Off: c.Def(prefix+".o", v.Off),
			Len: c.Def(prefix+".l", v.Len), Cap: c.Def(prefix+".c", v.Cap)}
	case KIface:
		return &Val{K: KIface, Ty: v.Ty, Tag: c.Def(prefix+".tag", v.Tag), Pay: c.Def(prefix+".pay", v.Pay)}
	}
	return v
}

// valEqTerm: structural equality of two values as a Bool term.
func (c *Ctx) valEqTerm(a, b *Val) Term {
	switch a.K {
	case KScalar:
		return Eq(a.T, b.T)
	case KTuple:
		var cs []Term
		for i := range a.F {
			cs = append(cs, c.valEqTerm(a.F[i], b.F[i]))
		}
		return And(cs...)
	case KSlice:
		return And(Eq(a.Base, b.Base), Eq(a.Off, b.Off), Eq(a.Len, b.Len), Eq(a.Cap, b.Cap))
	case KIface:
		return And(Eq(a.Tag, b.Tag), Eq(a.Pay, b.Pay))
	}
	panic(unsupported("equality of function values"))
}

// ---- constants ----------------------------------------------------------------

func (c *Ctx) constVal(k *ssa.Const) *Val {
	t := k.Type()
	if k.Value == nil {
		return c.zero(t)
	}
	switch u := t.Underlying().(type) {
	case *types.Basic:
		if w, _, ok := basicWidth(u); ok {
			iv := constant.ToInt(k.Value)
			bi, _ := new(big.Int).SetString(iv.ExactString(), 10)
			if bi == nil {
				panic(unsupported("integer constant %s", k.Value))
			}
			return scalar(c.intLit(bi, w), t)
		}
		switch u.Kind() {
		case types.Bool, types.UntypedBool:
			return scalar(Bool(constant.BoolVal(k.Value)), t)
		case types.Float32:
			f, _ := constant.Float32Val(k.Value)
			return scalar(BVLitU(uint64(f32bits(f)), 32), t)
		case types.Float64, types.UntypedFloat:
			f, _ := constant.Float64Val(k.Value)
			return scalar(BVLitU(f64bits(f), 64), t)
		case types.String, types.UntypedString:
			return scalar(c.strLit(constant.StringVal(k.Value)), t)
		}
	}
	panic(unsupported("constant of type %s", t))
}

type unsupportedErr struct{ msg string }

func (e unsupportedErr) Error() string { return e.msg }
func unsupported(format string, a ...interface{}) unsupportedErr {
	return unsupportedErr{fmt.Sprintf(format, a...)}
}

func f32bits(f float32) uint32 { return math.Float32bits(f) }
func f64bits(f float64) uint64 { return math.Float64bits(f) }
