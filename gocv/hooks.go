package main

import (
	"fmt"
	"os"
	"path/filepath"
	"sort"
)

// Property-specific extensions (filled in per property).

func installPropertyHooks(w *World, prop string) {
	w.isaTable = map[string]*IsaEntry{}
	files, _ := filepath.Glob("/verif/spec/*.isa")
	sort.Strings(files)
	for _, f := range files {
		t, err := parseIsaFile(f)
		if err != nil {
			fmt.Fprintln(os.Stderr, "isa table error:", err)
			os.Exit(2)
		}
		for k, v := range t {
			w.isaTable[k] = v
		}
	}
	w.genericPre = append(w.genericPre, isaPre)
	w.genericPost = append(w.genericPost, isaObligations)
	w.genericPre = append(w.genericPre, implPre)
	w.genericPost = append(w.genericPost, implPost)
	w.caseHooks = append(w.caseHooks, implCases)
	w.caseFactHooks = append(w.caseFactHooks, implCaseFacts)
}

func propertyObligations(w *World, o checkOpts, mine []*Contract) []*Obligation { return nil }

func extendEvidence(w *World, o checkOpts, ev map[string]interface{}) {}

func cmdSelftest(args []string) int { return 0 }

func loadContractsOverlay(repo string, overlay map[string][]byte) ([]*Contract, []*SpecFn, error) {
	return loadContracts(repo)
}
