package main

import (
	"fmt"
	"os"
	"path/filepath"
	"sort"
)

// Property-specific extensions (filled in per property).

func installPropertyHooks(w *World, prop string) {
	w.isaTable = map[string]*IsaEntry{}
	files, _ := filepath.Glob("/verif/spec/*.isa")
	sort.Strings(files)
	for _, f := range files {
		t, err := parseIsaFile(f)
		if err != nil {
			fmt.Fprintln(os.Stderr, "isa table error:", err)
			os.Exit(2)
		}
		for k, v := range t {
			w.isaTable[k] = v
		}
	}
	w.genericPre = append(w.genericPre, isaPre)
	w.genericPost = append(w.genericPost, isaObligations)
	w.genericPre = append(w.genericPre, implPre)
	w.genericPost = append(w.genericPost, implPost)
	w.caseHooks = append(w.caseHooks, implCases)
	w.caseHooks = append(w.caseHooks, knownFindingCases)
	w.caseFactHooks = append(w.caseFactHooks, implCaseFacts)
}

func propertyObligations(w *World, o checkOpts, mine []*Contract) []*Obligation { return nil }

func extendEvidence(w *World, o checkOpts, ev map[string]interface{}) {}

func cmdSelftest(args []string) int { return 0 }

func loadContractsOverlay(repo string, overlay map[string][]byte) ([]*Contract, []*SpecFn, error) {
	return loadContracts(repo)
}

// knownFindingCases splits the verification of a function by the input classes of its
// known findings: inside a class ("known<k>") failures are the recorded findings; outside
// all of them ("rest") every obligation must discharge, so a new defect is still reported.
func knownFindingCases(f *Frame, st *State, ct *Contract) []namedCase {
	whens := f.c.W.knownCases[ct.FullName()]
	if len(whens) == 0 {
		return nil
	}
	c := f.c
	sc := &Scope{c: c, fr: f, st: st, old: st, vars: map[string]*Val{}, pkg: f.fn.Pkg}
	if names := ct.Extra["isa"]; len(names) > 0 {
		if e := c.W.isaTable[names[0]]; e != nil {
			isaClassVars(c, st, e, sc)
		}
	}
	var cases []namedCase
	var any []Term
	for k, wsrc := range whens {
		e, err := parseExpr(wsrc)
		if err != nil {
			panic(sfail("known finding class %q: %v", wsrc, err))
		}
		t := sc.evalBool(e)
		cases = append(cases, namedCase{fmt.Sprintf("known%d", k), t})
		any = append(any, t)
	}
	cases = append(cases, namedCase{"rest", Not(Or(any...))})
	return cases
}
