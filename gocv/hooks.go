package main

// Property-specific extensions (filled in per property).

func installPropertyHooks(w *World, prop string) {}

func propertyObligations(w *World, o checkOpts, mine []*Contract) []*Obligation { return nil }

func extendEvidence(w *World, o checkOpts, ev map[string]interface{}) {}

func cmdSelftest(args []string) int { return 0 }

func loadContractsOverlay(repo string, overlay map[string][]byte) ([]*Contract, []*SpecFn, error) {
	return loadContracts(repo)
}
