package main

// Lane loops of vector ALU handlers: `for i := 0; i < 64; i++ { ... lane i ... }`.
// Instead of unrolling 64 iterations, the loop is cut at an invariant assembled
// from a fixed set of candidate clauses derived from the ISA-table entry
// (lanes >= i untouched; lanes < i hold the prescribed result; scalar state
// unchanged; each 64-bit accumulator equals the prescribed mask restricted to
// lanes < i, or keeps its initial value). Candidates that are not inductive are
// discarded by Houdini-style filtering; the survivors become named obligations
// (laneinv.<clause>.init / .step), so the statement covers all 2^64 EXEC masks
// with one inductive step.

import (
	"fmt"
	"go/constant"
	"go/token"
	"go/types"
	"os"
	"strings"

	"golang.org/x/tools/go/ssa"
)

type laneSpec struct {
	ev            *isaEval
	e             *IsaEntry
	entry         *State
	accFull       map[string]Term        // VCCBIT / SDSTBIT: prescribed 64-lane mask
	accExit       map[string]func() Term // the handler's accumulator for a mask key, read after the loop
	done          bool
	skb           Term
	skL, skK      Term
	needBitLemma  bool
	laneWhen      []string
	cti           *Obligation
	needCellLemma bool
	cur           *laneCtx // set while the body of a summarised lane loop is executed
}

type laneCtx struct {
	v, i  Term
	lname string
	reach Term
}

func (f *Frame) laneSpecFor() *laneSpec {
	top := f.topFrame()
	if top.contract == nil {
		return nil
	}
	names := top.contract.Extra["isa"]
	if len(names) == 0 {
		return nil
	}
	e := f.c.W.isaTable[names[0]]
	if e == nil || !e.PerLane {
		return nil
	}
	if top.lanes == nil {
		ls := &laneSpec{e: e, entry: top.entry, accFull: map[string]Term{}, laneWhen: f.c.W.knownLane[top.contract.FullName()]}
		ls.ev = newIsaEval(f.c, e, top.entry)
		top.lanes = ls
	}
	return top.lanes
}

func (ls *laneSpec) skolemCell(c *Ctx) (Term, Term) {
	if ls.skL.S == "" {
		ls.skL, ls.skK = c.Fresh("ln.sk.l", SBV(64)), c.Fresh("ln.sk.k", SBV(64))
	}
	return ls.skL, ls.skK
}

func (ls *laneSpec) untouchedAt(v, i, l, k Term) Term {
	v0 := ls.ev.c.ghost(ls.entry, "G_vgpr")
	return Implies(Not(And(BVSle(BVLitI(0, 64), l), BVSlt(l, i))), Eq(Select(Select(v, l), k), Select(Select(v0, l), k)))
}

func (ls *laneSpec) doneAt(v, i, l, k Term) Term {
	return Implies(And(BVSle(BVLitI(0, 64), l), BVSlt(l, i), Not(ls.exempt(l))), Eq(Select(Select(v, l), k), ls.specCell(l, k)))
}

// instantiate adds the instances of the cell clauses at a cell the body reads.
func (ls *laneSpec) instantiate(c *Ctx, lane, idx Term) {
	if ls.cur == nil {
		return
	}
	for _, k := range []Term{idx, BVAdd(idx, BVLitI(1, 64))} {
		key := "lninst|" + ls.cur.lname + "|" + lane.S + "|" + k.S
		if c.assumed[key] {
			continue
		}
		c.assumed[key] = true
		c.assumes = append(c.assumes, Assume{declPos: len(c.decls), t: Implies(ls.cur.reach, ls.untouchedAt(ls.cur.v, ls.cur.i, lane, k)),
			why: "lane-loop clause untouched, instance at a cell the body reads", tag: "cand:" + ls.cur.lname + ".untouched"})
		c.assumes = append(c.assumes, Assume{declPos: len(c.decls), t: Implies(ls.cur.reach, ls.doneAt(ls.cur.v, ls.cur.i, lane, k)),
			why: "lane-loop clause done, instance at a cell the body reads", tag: "cand:" + ls.cur.lname + ".done"})
	}
}

// skBit: the arbitrary bit position at which accumulator clauses are stated.
func (ls *laneSpec) skBit(c *Ctx) Term {
	if ls.skb.S == "" {
		ls.skb = c.Fresh("ln.sk.bit", SBV(64))
	}
	return ls.skb
}

// exempt: lane l belongs to the input class of a recorded known finding (per-lane class,
// `lanewhen={...}` in known_findings.txt). Clauses are not required of exempt lanes, so that
// everything outside the recorded class is still proved.
func (ls *laneSpec) exempt(l Term) Term {
	if len(ls.laneWhen) == 0 {
		return TFalse
	}
	c := ls.ev.c
	var alts []Term
	for _, src := range ls.laneWhen {
		e, err := parseExpr(src)
		if err != nil {
			panic(sfail("known finding lane class %q: %v", src, err))
		}
		var t Term
		ls.ev.guard("lanewhen", func() {
			sc := ls.ev.evalAt(l)
			// make all operand values available to the class expression
			for _, opn := range sortedKeys(isaOperandField) {
				fld := isaOperandField[opn]
				if _, has := ls.e.Ops[opn]; !has {
					continue
				}
				op := c.instField(ls.entry, ls.ev.inst, fld)
				v, _ := c.rdOperand(ls.entry, op, l)
				sc.vars[opn] = scalar(v, types.Typ[types.Uint64])
			}
			isaClassVars(c, ls.entry, ls.e, sc)
			sc.vars["active"] = scalar(ls.active(l), types.Typ[types.Bool])
			vcc := c.ghost(ls.entry, "G_vcc")
			sc.vars["VCCIN"] = scalar(BVAnd(BVLshr(vcc, l), BVLitI(1, 64)), types.Typ[types.Uint64])
			t = sc.evalBool(e)
		})
		alts = append(alts, t)
	}
	return Or(alts...)
}

// specBit: the prescribed bit `l` of a per-lane mask (0 for inactive lanes).
// maskAtSkolemBit: the value the specification state receives for a 64-lane mask that the handler
// writes to a scalar register pair as a whole word. It is the handler's own word with bit l (an
// arbitrary position) replaced by the prescribed bit of lane l; equality of the final states for an
// arbitrary l is equality of every bit of the mask (lanes of a recorded input class keep the handler's bit).
func (ls *laneSpec) maskAtSkolemBit(key string) Term {
	c := ls.ev.c
	get, ok := ls.accExit[key]
	if !ok {
		return ls.full(key)
	}
	code := get()
	l := ls.skBit(c)
	one := BVShl(BVLitI(1, 64), l)
	want := Ite(ls.exempt(l), BVAnd(BVLshr(code, l), BVLitI(1, 64)), ls.specBit(key, l))
	m := BVOr(BVAnd(code, BVNot(one)), BVShl(BVAnd(want, BVLitI(1, 64)), l))
	return c.Def("maskspec", Ite(BVUlt(l, BVLitI(64, 64)), m, code))
}

func (ls *laneSpec) specBit(key string, l Term) Term {
	return Ite(ls.active(l), ls.bit(key, l), BVLitI(0, 64))
}

func (ls *laneSpec) active(lane Term) Term {
	exec := ls.ev.c.ghost(ls.entry, "G_exec")
	return Eq(BVAnd(BVLshr(exec, lane), BVLitI(1, 64)), BVLitI(1, 64))
}

// vd: the 64-bit value the entry prescribes for lane `lane`.
func (ls *laneSpec) vd(lane Term) (Term, bool) {
	ex, ok := ls.e.Eff["VD"]
	if !ok {
		return Term{}, false
	}
	var t Term
	ls.ev.guard("VD", func() { t = isaTo(ls.ev.evalAt(lane).eval(ex), 64) })
	return t, true
}

func (ls *laneSpec) bit(key string, lane Term) Term {
	var t Term
	ls.ev.guard(key, func() { t = BVAnd(isaTo(ls.ev.evalAt(lane).eval(ls.e.Eff[key]), 64), BVLitI(1, 64)) })
	return t
}

// full: the prescribed mask over all 64 lanes (inactive lanes contribute 0).
func (ls *laneSpec) full(key string) Term {
	if t, ok := ls.accFull[key]; ok {
		return t
	}
	c := ls.ev.c
	acc := BVLitI(0, 64)
	var code Term
	if get, ok := ls.accExit[key]; ok && len(ls.laneWhen) > 0 {
		code = get() // lanes of a recorded input class keep whatever bit the handler produced
	}
	for l := int64(0); l < 64; l++ {
		lane := BVLitI(l, 64)
		b := Ite(ls.active(lane), BVShl(ls.bit(key, lane), lane), BVLitI(0, 64))
		if code.S != "" {
			b = Ite(ls.exempt(lane), BVAnd(code, BVShl(BVLitI(1, 64), lane)), b)
		}
		acc = c.Def("accfull", BVOr(acc, b))
	}
	ls.accFull[key] = acc
	return acc
}

// specCell: the prescribed final content of vector cell (l, k).
func (ls *laneSpec) specCell(l, k Term) Term {
	c := ls.ev.c
	v0 := c.ghost(ls.entry, "G_vgpr")
	old := Select(Select(v0, l), k)
	vd, ok := ls.vd(l)
	if !ok {
		return old
	}
	op := c.instField(ls.entry, ls.ev.inst, "Dst")
	d := c.operandDesc(ls.entry, op)
	dIdx := BVSub(d.rt, BVLitI(c.W.instsConst("V0"), 64))
	nb := raw(fmt.Sprintf("(isa.nb %s %s)", d.bs.S, d.rc.S), SBV(64))
	act := And(ls.active(l), BVUlt(l, BVLitI(64, 64)))
	return Ite(And(act, Eq(k, dIdx)), Extract(31, 0, vd),
		Ite(And(act, Eq(nb, BVLitI(8, 64)), Eq(k, BVAdd(dIdx, BVLitI(1, 64)))), Extract(63, 32, vd), old))
}

type laneCand struct {
	name   string
	assume func(st *State, pv map[*ssa.Phi]*Val) Term             // form assumed at the loop head (may be quantified)
	goal   func(st *State, pv map[*ssa.Phi]*Val) Term             // form to prove (skolemised)
	step   func(hs, bs *State, head, next map[*ssa.Phi]*Val) Term // optional: step obligation in lemma-hypothesis form
}

func inductionPhi(L *Loop) *ssa.Phi {
	for _, in := range L.Header.Instrs {
		p, ok := in.(*ssa.Phi)
		if !ok {
			break
		}
		for i, e := range p.Edges {
			if L.Blocks[L.Header.Preds[i]] {
				if bo, ok := e.(*ssa.BinOp); ok && bo.Op == token.ADD && bo.X == p {
					if k, ok := bo.Y.(*ssa.Const); ok && k.Value != nil && constant.Compare(k.Value, token.EQL, constant.MakeInt64(1)) {
						return p
					}
				}
			}
		}
	}
	return nil
}

func (f *Frame) laneCandidates(ls *laneSpec, L *Loop, iphi *ssa.Phi, initVals map[*ssa.Phi]*Val, written map[string]bool) []laneCand {
	c := f.c
	entry := ls.entry
	var cs []laneCand
	iTerm := func(pv map[*ssa.Phi]*Val) Term { return pv[iphi].T }
	same := func(fn func(st *State, pv map[*ssa.Phi]*Val) Term) (func(*State, map[*ssa.Phi]*Val) Term, func(*State, map[*ssa.Phi]*Val) Term) {
		return fn, fn
	}
	// lane index stays in range
	a, g := same(func(st *State, pv map[*ssa.Phi]*Val) Term {
		return And(BVSle(BVLitI(0, 64), iTerm(pv)), BVSle(iTerm(pv), BVLitI(64, 64)))
	})
	cs = append(cs, laneCand{name: "range", assume: a, goal: g})
	// scalar architectural state is not touched inside the loop
	for _, gname := range []string{"G_scc", "G_vcc", "G_exec", "G_pc", "G_m0"} {
		gn := gname
		if !written[gn] {
			continue // not written by the loop: not havocked, nothing to state
		}
		a, g := same(func(st *State, pv map[*ssa.Phi]*Val) Term { return Eq(c.ghost(st, gn), c.ghost(entry, gn)) })
		cs = append(cs, laneCand{name: "keep." + gn[2:], assume: a, goal: g})
	}
	skS := c.Fresh("ln.sk.s", SBV(64))
	if written["G_sgpr"] {
		cs = append(cs, laneCand{name: "keep.sgpr",
			assume: func(st *State, pv map[*ssa.Phi]*Val) Term { return Eq(c.ghost(st, "G_sgpr"), c.ghost(entry, "G_sgpr")) },
			goal: func(st *State, pv map[*ssa.Phi]*Val) Term {
				return Eq(Select(c.ghost(st, "G_sgpr"), skS), Select(c.ghost(entry, "G_sgpr"), skS))
			}})
	}
	// lanes >= i untouched; lanes < i done. Stated at an arbitrary cell (skL, skK); the reads
	// the body performs add the instances at the cells they touch (laneSpec.instantiate).
	skL, skK := ls.skolemCell(c)
	cs = append(cs, laneCand{name: "untouched",
		assume: func(st *State, pv map[*ssa.Phi]*Val) Term {
			v := c.ghost(st, "G_vgpr")
			return And(ls.untouchedAt(v, iTerm(pv), skL, skK), ls.untouchedAt(v, iTerm(pv), iTerm(pv), skK))
		},
		goal: func(st *State, pv map[*ssa.Phi]*Val) Term {
			return ls.untouchedAt(c.ghost(st, "G_vgpr"), iTerm(pv), skL, skK)
		},
		// hypotheses of lemma `cells`: an iteration changes no cell of another lane ...
		step: func(hs, bs *State, head, next map[*ssa.Phi]*Val) Term {
			return Implies(Neq(skL, iTerm(head)), Eq(Select(Select(c.ghost(bs, "G_vgpr"), skL), skK), Select(Select(c.ghost(hs, "G_vgpr"), skL), skK)))
		}})
	cs = append(cs, laneCand{name: "done",
		assume: func(st *State, pv map[*ssa.Phi]*Val) Term {
			return ls.doneAt(c.ghost(st, "G_vgpr"), iTerm(pv), skL, skK)
		},
		goal: func(st *State, pv map[*ssa.Phi]*Val) Term {
			return ls.doneAt(c.ghost(st, "G_vgpr"), iTerm(pv), skL, skK)
		},
		// ... and leaves lane i holding exactly the prescribed cells
		step: func(hs, bs *State, head, next map[*ssa.Phi]*Val) Term {
			i := iTerm(head)
			return Implies(And(BVSle(BVLitI(0, 64), i), BVSlt(i, BVLitI(64, 64)), Not(ls.exempt(i))), Eq(Select(Select(c.ghost(bs, "G_vgpr"), i), skK), ls.specCell(i, skK)))
		}})
	ls.needCellLemma = true
	// accumulators
	for _, p := range f.headerPhis(L) {
		if p == iphi {
			continue
		}
		ph := p
		iv, ok := initVals[ph]
		if !ok || iv.K != KScalar {
			continue
		}
		a, g := same(func(st *State, pv map[*ssa.Phi]*Val) Term { return Eq(pv[ph].T, iv.T) })
		cs = append(cs, laneCand{name: "phi." + ph.Comment + ".keep", assume: a, goal: g})
		if w, _, isInt := intInfo(ph.Type()); isInt && w == 64 {
			for _, key := range []string{"VCCBIT", "SDSTBIT", "MDSTBIT"} {
				if ls.e.Eff[key] == nil {
					continue
				}
				kk := key
				skB := ls.skBit(c)
				if ls.accExit == nil {
					ls.accExit = map[string]func() Term{}
				}
				accPhi := ph
				ls.accExit[kk] = func() Term { return f.env[accPhi].T }
				// bit l of the accumulator is the prescribed bit for lanes < i and the initial bit otherwise
				inst := func(pv map[*ssa.Phi]*Val, l Term) Term {
					i := iTerm(pv)
					bitOf := func(x Term) Term { return BVAnd(BVLshr(x, l), BVLitI(1, 64)) }
					lt := And(BVSle(BVLitI(0, 64), l), BVSlt(l, i))
					want := Ite(lt, Ite(ls.active(l), ls.bit(kk, l), BVLitI(0, 64)), bitOf(iv.T))
					return Implies(BVUlt(l, BVLitI(64, 64)), Or(And(lt, ls.exempt(l)), Eq(bitOf(pv[ph].T), want)))
				}
				// Step obligation in the form of the hypotheses of lemma `bitacc` (proved once, see
				// bitAccLemma): the iteration changes at most bit i, and bit i becomes the prescribed bit.
				cs = append(cs, laneCand{name: "phi." + ph.Comment + "." + key,
					assume: func(st *State, pv map[*ssa.Phi]*Val) Term { return And(inst(pv, skB), inst(pv, iTerm(pv))) },
					goal:   func(st *State, pv map[*ssa.Phi]*Val) Term { return inst(pv, skB) },
					step: func(hs, bs *State, head, next map[*ssa.Phi]*Val) Term {
						i := iTerm(head)
						m := BVShl(BVLitI(1, 64), i)
						p1 := Eq(BVAnd(next[ph].T, BVNot(m)), BVAnd(head[ph].T, BVNot(m)))
						p2 := Implies(Not(ls.exempt(i)), Eq(BVAnd(BVLshr(next[ph].T, i), BVLitI(1, 64)), ls.specBit(kk, i)))
						return Implies(And(BVSle(BVLitI(0, 64), i), BVSlt(i, BVLitI(64, 64))), And(p1, p2))
					}})
				ls.needBitLemma = true
			}
		}
	}
	return cs
}

// laneLoop summarises a lane loop. Returns false when the loop does not have
// the expected shape (the caller then unrolls it).
func (f *Frame) laneLoop(L *Loop, ls *laneSpec) bool {
	c := f.c
	iphi := inductionPhi(L)
	if iphi == nil {
		return false
	}
	mems, maps, all := f.loopWrites(L)
	heapWrites := all || len(maps) > 0
	for n, vs := range mems {
		if vs != "" && !strings.HasPrefix(n, "G_") {
			heapWrites = true
		}
	}
	if heapWrites {
		return false // the loop writes Go-level memory: not a pure register lane loop
	}
	h := L.Header
	pos := c.W.fset.Position(loopPos(L))
	outside := func(p *ssa.BasicBlock) bool { return !L.Blocks[p] }
	inside := func(p *ssa.BasicBlock) bool { return L.Blocks[p] }
	st := f.entryState(h, outside)
	if st.reach.IsFalse() {
		return false
	}
	if !c.feasible(st.reach) {
		// unreachable under the entry's preconditions (e.g. the SDWA variant): nothing to summarise
		st.reach = TFalse
		for b := range L.Blocks {
			for s := range b.Succs {
				if !L.Blocks[b.Succs[s]] {
					f.setEdge(b, s, &State{reach: TFalse, mem: map[string]Term{}})
				}
			}
		}
		return true
	}
	phis := f.headerPhis(L)
	initVals := map[*ssa.Phi]*Val{}
	for _, p := range phis {
		initVals[p] = f.env[p]
	}
	for _, g := range ghostOrder {
		c.ghost(st, g)
	}
	written := f.laneGhostWrites(L)
	cands := f.laneCandidates(ls, L, iphi, initVals, written)
	lname := fmt.Sprintf("loop%d", L.Ordinal)
	// init obligations (created now: they must not see the head assumptions)
	initObl := map[string]*Obligation{}
	for _, cd := range cands {
		o := c.Oblige("laneinv", lname+"."+cd.name+".init", st.reach, cd.goal(st, initVals), pos, "lane-loop invariant clause holds on entry")
		initObl[cd.name] = o
	}
	// havoc the ghosts the loop writes, and the loop-carried values
	for _, g := range ghostOrder {
		if written[g] {
			st.mem[g] = c.Fresh("ln."+g, ghostSorts[g])
		}
	}
	headVals := map[*ssa.Phi]*Val{}
	for _, p := range phis {
		v := c.freshVal(lname+"."+p.Comment, p.Type())
		f.assumeAllocated(v)
		f.env[p] = v
		headVals[p] = v
	}
	headSt := st.clone()
	for _, cd := range cands {
		c.assumes = append(c.assumes, Assume{declPos: len(c.decls), t: Implies(st.reach, cd.assume(st, headVals)), why: "lane-loop invariant clause " + cd.name, tag: "cand:" + lname + "." + cd.name})
	}
	blocks := f.loopBlocksRPO(L)
	f.clearInner(L)
	ls.cur = &laneCtx{v: c.ghost(st, "G_vgpr"), i: headVals[iphi].T, lname: lname, reach: st.reach}
	f.runBlocks(blocks, L, st)
	ls.cur = nil
	back := f.entryState(h, inside)
	stepVals := map[*ssa.Phi]*Val{}
	for _, p := range phis {
		stepVals[p] = f.env[p]
	}
	stepObl := map[string]*Obligation{}
	var stepInputs map[string]Term
	stepResults := func(cd laneCand) map[string]Term { return nil }
	if !back.reach.IsFalse() {
		for _, g := range ghostOrder {
			c.ghost(back, g)
		}
		// labelled model values for replaying a failed step clause on the real handler
		iH := headVals[iphi].T
		stepInputs = f.topFrame().isaInputsAt(ls.entry, ls.e, iH)
		stepInputs["lane"] = iH
		skl, skk := ls.skolemCell(c)
		stepInputs["sk.lane"], stepInputs["sk.reg"] = skl, skk
		if ls.skb.S != "" {
			stepInputs["sk.bit"] = ls.skb
		}
		for _, p := range phis {
			if p != iphi && headVals[p].K == KScalar {
				stepInputs["head."+p.Comment] = headVals[p].T
			}
		}
		dOp := c.instField(ls.entry, ls.ev.inst, "Dst")
		dd := c.operandDesc(ls.entry, dOp)
		dIdx := BVSub(dd.rt, BVLitI(c.W.instsConst("V0"), 64))
		vNext := c.ghost(back, "G_vgpr")
		res := map[string]Term{"Dcell0": c.Def("res.d0", Select(Select(vNext, iH), dIdx)), "Dcell1": c.Def("res.d1", Select(Select(vNext, iH), BVAdd(dIdx, BVLitI(1, 64))))}
		for _, p := range phis {
			if p != iphi && stepVals[p].K == KScalar && isBV(stepVals[p].T.Sort) && bvWidth(stepVals[p].T.Sort) == 64 {
				res["accbit."+p.Comment] = c.Def("res.accbit", BVAnd(BVLshr(stepVals[p].T, iH), BVLitI(1, 64)))
			}
		}
		stepResults = func(cd laneCand) map[string]Term { return res }
		for _, cd := range cands {
			g := Term{}
			if cd.step != nil {
				g = cd.step(headSt, back, headVals, stepVals)
			} else {
				g = cd.goal(back, stepVals)
			}
			o := c.Oblige("laneinv", lname+"."+cd.name+".step", back.reach, g, pos, "lane-loop invariant clause is preserved by one lane iteration")
			o.Inputs, o.Results = stepInputs, stepResults(cd)
			stepObl[cd.name] = o
		}
	}
	// Houdini: discard clauses that are not inductive relative to the others
	alive := map[string]bool{}
	for _, cd := range cands {
		alive[cd.name] = true
	}
	for round := 0; round < 12; round++ {
		changed := false
		dead := map[string]bool{}
		for n, ok := range alive {
			if !ok {
				dead["cand:"+lname+"."+n] = true
			}
		}
		var check []*Obligation
		for _, cd := range cands {
			if !alive[cd.name] {
				continue
			}
			for _, o := range []*Obligation{initObl[cd.name], stepObl[cd.name]} {
				if o != nil && o.Verdict != "discharged" {
					o.Verdict = ""
					o.excludeTags = dead
					check = append(check, o)
				}
			}
		}
		// step obligations depend on the surviving set: re-decide all of them each round
		for _, cd := range cands {
			if alive[cd.name] && stepObl[cd.name] != nil && stepObl[cd.name].Verdict == "discharged" && round > 0 {
				o := stepObl[cd.name]
				o.Verdict = ""
				o.excludeTags = dead
				check = append(check, o)
			}
		}
		if os.Getenv("GOCV_DEBUG_ALL") != "" {
			os.MkdirAll("/tmp/gocv_debug", 0o755)
			for _, o := range check {
				os.WriteFile(fmt.Sprintf("/tmp/gocv_debug/r%d_%s.smt2", round, sanitize(o.Name)), []byte(o.Query(true)), 0o644)
			}
		}
		solveAll(check, 8*timeScale, 6)
		if os.Getenv("GOCV_DEBUG") != "" {
			for _, o := range check {
				if o.Secs > 0.5 {
					fmt.Fprintf(os.Stderr, "houdini round %d: %.2fs %s %s %s\n", round, o.Secs, o.Verdict, o.Solver, o.Name)
				}
			}
		}
		for _, cd := range cands {
			if !alive[cd.name] {
				continue
			}
			for _, o := range []*Obligation{initObl[cd.name], stepObl[cd.name]} {
				if o != nil && o.Verdict != "discharged" {
					alive[cd.name] = false
					changed = true
					if o.Verdict == "failed" && o.Model != "" && (cd.name == "done" || strings.HasSuffix(cd.name, "BIT")) && ls.cti == nil {
						ls.cti = o
					}
					if os.Getenv("GOCV_DEBUG") != "" {
						os.MkdirAll("/tmp/gocv_debug", 0o755)
						os.WriteFile("/tmp/gocv_debug/"+sanitize(o.Name)+".smt2", []byte(o.Query(true)), 0o644)
						fmt.Fprintln(os.Stderr, "houdini drop:", o.Name, o.Verdict, o.Solver)
					}
				}
			}
		}
		if !changed {
			break
		}
	}
	// finalise: dropped clauses disappear (assumption and obligations); survivors stay
	var keep []*Obligation
	drop := map[*Obligation]bool{}
	for _, cd := range cands {
		if !alive[cd.name] {
			c.deadTags["cand:"+lname+"."+cd.name] = true
			drop[initObl[cd.name]] = true
			if stepObl[cd.name] != nil {
				drop[stepObl[cd.name]] = true
			}
			c.note("lane loop %s of %s: candidate invariant clause %q is not inductive and was discarded", lname, f.fn.Name(), cd.name)
		}
	}
	// survivors: the entry obligations and the cheap step obligations are merged; the
	// substantial step clauses (cells, accumulators) stay separate (small queries)
	var initGoals, frameGoals []Term
	var names, frameNames []string
	var initRef, frameRef *Obligation
	heavy := func(n string) bool { return n == "done" || n == "untouched" || strings.HasSuffix(n, "BIT") }
	for _, cd := range cands {
		if !alive[cd.name] {
			continue
		}
		names = append(names, cd.name)
		if o := initObl[cd.name]; o != nil {
			initGoals = append(initGoals, o.Goal)
			initRef = o
			drop[o] = true
		}
		if o := stepObl[cd.name]; o != nil && !heavy(cd.name) {
			frameGoals = append(frameGoals, o.Goal)
			frameNames = append(frameNames, cd.name)
			frameRef = o
			drop[o] = true
		}
	}
	for _, o := range c.obls {
		if !drop[o] {
			o.excludeTags = nil
			keep = append(keep, o)
		}
	}
	c.obls = keep
	mk := func(ref *Obligation, goals []Term, suffix, what string, ns []string) {
		if ref == nil {
			return
		}
		o := *ref
		o.Name = c.fn + "#laneinv." + lname + "." + suffix + c.caseSuffix
		o.Goal = And(goals...)
		o.Note = what + " [clauses: " + strings.Join(ns, ", ") + "]"
		o.Verdict, o.excludeTags = "", nil
		c.obls = append(c.obls, &o)
	}
	mk(initRef, initGoals, "init", "lane-loop invariant holds on entry", names)
	mk(frameRef, frameGoals, "frame.step", "lane index advances and scalar state / other accumulators are preserved by one lane iteration", frameNames)
	for _, p := range phis {
		f.env[p] = headVals[p]
	}
	f.clearInner(L)
	c.W.stat(func() { c.W.stats.cut++ })
	ls.done = true
	if ls.needBitLemma {
		bitAccLemma(c, pos)
	}
	if ls.needCellLemma {
		cellLemma(c, pos)
	}
	return true
}

var _ = types.Typ

// bitAccLemma: the meta-lemma behind accumulator clauses, proved once per run.
// If the head clause holds at bit l, the iteration changes at most bit i, and bit i
// becomes S(i), then the clause holds at bit l for i+1. S and I are arbitrary.
func bitAccLemma(c *Ctx, pos token.Position) {
	if c.assumed["bitacc.lemma"] {
		return
	}
	c.assumed["bitacc.lemma"] = true
	bv := SBV(64)
	acc, acc2, i, l := c.Fresh("lem.acc", bv), c.Fresh("lem.acc2", bv), c.Fresh("lem.i", bv), c.Fresh("lem.l", bv)
	S := func(x Term) Term { return c.UF("lem.S", bv, x) }
	I := func(x Term) Term { return c.UF("lem.I", bv, x) }
	bit := func(x, k Term) Term { return BVAnd(BVLshr(x, k), BVLitI(1, 64)) }
	one := BVLitI(1, 64)
	m := BVShl(one, i)
	inRange := func(k, bound Term) Term { return And(BVSle(BVLitI(0, 64), k), BVSlt(k, bound)) }
	E := func(x Term) Term { return c.UF("lem.E", SBool, x) } // lanes exempted by a recorded finding
	hyp := And(inRange(i, BVLitI(64, 64)), BVUlt(l, BVLitI(64, 64)),
		Or(And(inRange(l, i), E(l)), Eq(bit(acc, l), Ite(inRange(l, i), S(l), I(l)))),
		Eq(BVAnd(acc2, BVNot(m)), BVAnd(acc, BVNot(m))),
		Implies(Not(E(i)), Eq(bit(acc2, i), S(i))))
	concl := Or(And(inRange(l, BVAdd(i, one)), E(l)), Eq(bit(acc2, l), Ite(inRange(l, BVAdd(i, one)), S(l), I(l))))
	c.Oblige("lemma", "bitacc", TTrue, Implies(hyp, concl), pos, "accumulator clause: changing only bit i to the prescribed bit advances the clause from i to i+1")
}

// cellLemma: the meta-lemma behind the cell clauses, proved once per run. If
// `untouched` and `done` hold at cell (l,k) for i, the iteration changes no cell of a
// lane other than i, and lane i ends up holding Spec(i, .), then both hold for i+1.
func cellLemma(c *Ctx, pos token.Position) {
	if c.assumed["cells.lemma"] {
		return
	}
	c.assumed["cells.lemma"] = true
	bv := SBV(64)
	i, l, k := c.Fresh("lem.ci", bv), c.Fresh("lem.cl", bv), c.Fresh("lem.ck", bv)
	V := func(x, y Term) Term { return c.UF("lem.V", SBV(32), x, y) }
	V2 := func(x, y Term) Term { return c.UF("lem.V2", SBV(32), x, y) }
	V0 := func(x, y Term) Term { return c.UF("lem.V0", SBV(32), x, y) }
	Sp := func(x, y Term) Term { return c.UF("lem.Spec", SBV(32), x, y) }
	in := func(x, b Term) Term { return And(BVSle(BVLitI(0, 64), x), BVSlt(x, b)) }
	one := BVLitI(1, 64)
	E := func(x Term) Term { return c.UF("lem.E", SBool, x) }
	hyp := And(in(i, BVLitI(64, 64)),
		Implies(Not(in(l, i)), Eq(V(l, k), V0(l, k))), Implies(And(in(l, i), Not(E(l))), Eq(V(l, k), Sp(l, k))),
		Implies(Neq(l, i), Eq(V2(l, k), V(l, k))), Implies(Not(E(i)), Eq(V2(i, k), Sp(i, k))))
	concl := And(Implies(Not(in(l, BVAdd(i, one))), Eq(V2(l, k), V0(l, k))), Implies(And(in(l, BVAdd(i, one)), Not(E(l))), Eq(V2(l, k), Sp(l, k))))
	c.Oblige("lemma", "cells", TTrue, Implies(hyp, concl), pos, "cell clauses: changing only lane i to the prescribed cells advances `untouched` and `done` from i to i+1")
}

// laneGhostWrites: which parts of the architectural state the loop body can write,
// from the InstEmuState calls it contains (callees included).
func (f *Frame) laneGhostWrites(L *Loop) map[string]bool {
	out := map[string]bool{}
	all := func() {
		for _, g := range ghostOrder {
			out[g] = true
		}
	}
	var scanFn func(fn *ssa.Function, depth int)
	scanInstr := func(in ssa.Instruction, depth int) {
		call, ok := in.(ssa.CallInstruction)
		if !ok {
			return
		}
		common := call.Common()
		if common.IsInvoke() {
			name := ifaceMethodName(common)
			switch name {
			case emuState + "SetSCC":
				out["G_scc"] = true
			case emuState + "SetVCC":
				out["G_vcc"] = true
			case emuState + "SetEXEC":
				out["G_exec"] = true
			case emuState + "SetPC":
				out["G_pc"] = true
			case emuState + "WriteOperand", emuState + "WriteOperandBytes":
				// destination taken from inst.Dst of a per-lane entry: a VGPR (decoder contract)
				if fieldOfLoad(common.Args[0]) == "Dst" {
					out["G_vgpr"] = true
				} else {
					all()
				}
			default:
				if _, isModel := f.c.W.models[name]; !isModel {
					all()
				}
			}
			return
		}
		callee := common.StaticCallee()
		if callee == nil || len(callee.Blocks) == 0 || depth > 5 {
			if callee != nil {
				key := fnKey(callee)
				if _, isModel := f.c.W.models[key]; isModel || neutral(key) || isPanicFn(key) {
					return
				}
				if _, isB := common.Value.(*ssa.Builtin); isB {
					return
				}
			}
			if _, isB := common.Value.(*ssa.Builtin); isB {
				return
			}
			all()
			return
		}
		key := fnKey(callee)
		if _, isModel := f.c.W.models[key]; isModel || neutral(key) || isPanicFn(key) {
			return
		}
		scanFn(callee, depth+1)
	}
	scanFn = func(fn *ssa.Function, depth int) {
		for _, b := range fn.Blocks {
			for _, in := range b.Instrs {
				scanInstr(in, depth)
			}
		}
	}
	for b := range L.Blocks {
		for _, in := range b.Instrs {
			scanInstr(in, 0)
		}
	}
	return out
}

// fieldOfLoad: v = *(&x.Field) -> "Field"
func fieldOfLoad(v ssa.Value) string {
	u, ok := v.(*ssa.UnOp)
	if !ok || u.Op != token.MUL {
		return ""
	}
	fa, ok := u.X.(*ssa.FieldAddr)
	if !ok {
		return ""
	}
	st, ok := deref(fa.X.Type()).Underlying().(*types.Struct)
	if !ok {
		return ""
	}
	return st.Field(fa.Field).Name()
}
