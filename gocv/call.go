package main

import (
	"fmt"
	"go/types"
	"sort"
	"strings"

	"golang.org/x/tools/go/ssa"
)

// Model is a built-in semantics for a callee (intrinsic or interface model).
type Model func(f *Frame, st *State, call ssa.CallInstruction, args []*Val) *Val

func (f *Frame) call(st *State, v *ssa.Call) *Val {
	common := v.Common()
	var args []*Val
	for _, a := range common.Args {
		args = append(args, f.get(a))
	}
	var fnv *Val
	if _, isB := common.Value.(*ssa.Builtin); !isB {
		fnv = f.get(common.Value)
	}
	return f.doCall(st, v, common, args, fnv)
}

func resultType(common *ssa.CallCommon) types.Type {
	sig := common.Signature()
	switch sig.Results().Len() {
	case 0:
		return nil
	case 1:
		return sig.Results().At(0).Type()
	}
	return sig.Results()
}

func (f *Frame) wrapResults(common *ssa.CallCommon, res []*Val) *Val {
	switch len(res) {
	case 0:
		return nil
	case 1:
		return res[0]
	}
	return &Val{K: KTuple, Ty: common.Signature().Results(), F: res}
}

func (f *Frame) doCall(st *State, site ssa.CallInstruction, common *ssa.CallCommon, args []*Val, fnv *Val) *Val {
	c := f.c
	if b, ok := common.Value.(*ssa.Builtin); ok {
		if f.contract != nil && f.caller == nil && len(f.contract.CallAssert) > 0 {
			f.callAsserts(st, site, common, args, nil)
		}
		return f.builtin(st, site, b, common, args)
	}
	if f.contract != nil && f.caller == nil && len(f.contract.CallAssert) > 0 {
		f.callAsserts(st, site, common, args, fnv)
	}
	if f.topFrame().onCall != nil {
		f.topFrame().onCall(f, st, site, args)
	}
	if common.IsInvoke() {
		recv := fnv
		name := ifaceMethodName(common)
		if m, ok := c.W.models[name]; ok {
			return m(f, st, site, append([]*Val{recv}, args...))
		}
		// devirtualise on a known dynamic type
		if recv.Tag.C != nil && recv.Tag.C.Sign() != 0 {
			dt := c.W.tagType(int(recv.Tag.C.Int64()))
			callee := c.W.prog.LookupMethod(dt, common.Method.Pkg(), common.Method.Name())
			if callee != nil {
				var r *Val
				if _, isPtr := dt.Underlying().(*types.Pointer); isPtr {
					r = scalar(recv.Pay, dt)
				} else {
					r = c.load(st, recv.Pay, dt)
				}
				return f.callStatic(st, site, common, callee, append([]*Val{r}, args...), nil)
			}
		}
		// solver-aided devirtualisation: a dynamic type the assumptions pin down
		if recv.Tag.C == nil {
			iface, _ := common.Value.Type().Underlying().(*types.Interface)
			for _, id := range c.W.tagIDs() {
				dt := c.W.tagType(id)
				if iface == nil || !types.Implements(dt, iface) {
					continue
				}
				if c.feasible(And(st.reach, Neq(recv.Tag, IntLitI(int64(id))))) {
					continue
				}
				callee := c.W.prog.LookupMethod(dt, common.Method.Pkg(), common.Method.Name())
				if callee == nil {
					continue
				}
				var r *Val
				if _, isPtr := dt.Underlying().(*types.Pointer); isPtr {
					r = scalar(recv.Pay, dt)
				} else {
					r = c.load(st, recv.Pay, dt)
				}
				return f.callStatic(st, site, common, callee, append([]*Val{r}, args...), nil)
			}
		}
		f.panicSite(st, site.(ssa.Instruction), "nil", Eq(recv.Tag, IntLitI(0)), "method call on nil interface")
		ek, isExt := c.W.externKey(f.scopePkg(), name)
		if why := c.W.externFrames[ek]; isExt && c.W.externPure[ek] {
			c.W.noteAssumed("extern " + name + " is a pure accessor (its result is a function of the receiver and arguments): " + why)
			if r := c.pureExtern(name, recv, args, resultType(common)); r != nil {
				return r
			}
		}
		if why := c.W.externFrames[ek]; isExt {
			c.W.noteAssumed("extern " + name + " leaves the verified heap unchanged, result unconstrained: " + why)
			f.recordLastArgs(st, common.Method.Name(), args)
			c.allocFrame(st)
			if rt := resultType(common); rt != nil {
				return c.freshVal("ext."+common.Method.Name(), rt)
			}
			return nil
		}
		return f.unknownCall(st, common, name)
	}
	if fnv != nil && fnv.K == KFunc && fnv.Fn != nil {
		return f.callStatic(st, site, common, fnv.Fn, args, fnv.Binds)
	}
	if top := f.topFrame(); top.contract != nil && len(top.contract.Extra["funcvalues"]) > 0 {
		// "funcvalues frame-only :: reason": calls through function values inside this function are assumed to
		// leave the verified heap unchanged (result unconstrained); listed as an assumption
		c.W.noteAssumed(top.contract.FullName() + ": calls through function values leave the verified heap unchanged: " + strings.Join(top.contract.Extra["funcvalues"], "; "))
		c.allocFrame(st)
		if rt := resultType(common); rt != nil {
			return c.freshVal("ext.funcvalue", rt)
		}
		return nil
	}
	return f.unknownCall(st, common, "function value")
}

// assumeOldBelow: the reference parts of an extern result denote objects that existed before the call.
func (f *Frame) assumeOldBelow(st *State, v *Val, lo int) {
	c := f.c
	in := func(r Term) Term { return And(ILe(IntLitI(0), RefRoot(r)), ILt(RefRoot(r), IntLitI(int64(lo)))) }
	switch v.K {
	case KScalar:
		if v.T.Sort == SRef {
			c.Assume(st.reach, in(v.T), "extern result existed before the call")
		}
	case KSlice:
		c.Assume(st.reach, in(v.Base), "extern result existed before the call")
	case KIface:
		c.Assume(st.reach, in(v.Pay), "extern result existed before the call")
	case KTuple:
		for _, x := range v.F {
			f.assumeOldBelow(st, x, lo)
		}
	}
}

// pureExtern: the result of a pure accessor as an uninterpreted function of receiver and scalar arguments.
func (c *Ctx) pureExtern(name string, recv *Val, args []*Val, rt types.Type) *Val {
	if rt == nil {
		return nil
	}
	var in []Term
	switch recv.K {
	case KIface:
		in = append(in, recv.Tag, recv.Pay)
	case KScalar:
		in = append(in, recv.T)
	default:
		return nil
	}
	for _, a := range args {
		if a.K != KScalar {
			return nil
		}
		in = append(in, a.T)
	}
	mk := func(suffix, sortName string) Term { return c.UF("pure."+name+suffix, sortName, in...) }
	switch u := rt.Underlying().(type) {
	case *types.Interface:
		_ = u
		return &Val{K: KIface, Ty: rt, Tag: mk(".tag", SInt), Pay: mk(".pay", SRef)}
	case *types.Slice:
		ln := mk(".len", c.idxSort)
		cp := mk(".cap", c.idxSort)
		c.Assume(TTrue, And(c.idxLe(c.idxLit(0), ln), c.idxLe(ln, cp), c.idxLt(cp, c.idxLit(1<<48))), "slice result of a pure accessor is well formed")
		return &Val{K: KSlice, Ty: rt, Base: mk(".base", SRef), Off: mk(".off", c.idxSort), Len: ln, Cap: cp}
	case *types.Struct, *types.Tuple, *types.Array:
		return nil
	}
	sortName := c.scalarSort(rt)
	if sortName == "" {
		return nil
	}
	return scalar(mk("", sortName), rt)
}

// assumeFreshIn: the reference parts of an extern result denote objects allocated by that call.
func (f *Frame) assumeFreshIn(st *State, v *Val, lo int) {
	c := f.c
	in := func(r Term) Term {
		return Or(Eq(r, TNull), And(ILe(IntLitI(int64(lo)), RefRoot(r)), ILt(RefRoot(r), IntLitI(int64(lo+256)))))
	}
	switch v.K {
	case KScalar:
		if v.T.Sort == SRef {
			c.Assume(st.reach, in(v.T), "extern result is a fresh allocation")
		}
	case KSlice:
		c.Assume(st.reach, And(in(v.Base), Eq(v.Off, c.idxLit(0))), "extern result is a fresh allocation")
	case KTuple:
		for _, x := range v.F {
			f.assumeFreshIn(st, x, lo)
		}
	}
}

// scopePkg: the package (relative directory) of the function under verification.
func (f *Frame) scopePkg() string {
	top := f.topFrame()
	if top.fn != nil && top.fn.Pkg != nil {
		if top.contract != nil {
			return shortPkg(top.fn.Pkg.Pkg.Path()) + "#" + top.contract.FullName()
		}
		return shortPkg(top.fn.Pkg.Pkg.Path())
	}
	return ""
}

// calleeLabel: a printable name of the called function or method.
func calleeLabel(common *ssa.CallCommon) string {
	if b, ok := common.Value.(*ssa.Builtin); ok {
		return "builtin." + b.Name()
	}
	if common.IsInvoke() {
		return ifaceMethodName(common)
	}
	if fn := common.StaticCallee(); fn != nil {
		return fnKey(fn)
	}
	return "function value"
}

// callAsserts: site obligations attached to call sites of the function under contract. The k-th
// matching call is counted in source order; the receiver of a method call is `recv`, the
// arguments are arg0, arg1, ...
func (f *Frame) callAsserts(st *State, site ssa.CallInstruction, common *ssa.CallCommon, args []*Val, fnv *Val) {
	c := f.c
	for _, ca := range f.contract.CallAssert {
		if !strings.Contains(calleeLabel(common), ca.Callee) {
			continue
		}
		var sites []ssa.CallInstruction
		for _, b := range f.fn.Blocks {
			for _, in := range b.Instrs {
				if ci, ok := in.(ssa.CallInstruction); ok {
					if strings.Contains(calleeLabel(ci.Common()), ca.Callee) {
						sites = append(sites, ci)
					}
				}
			}
		}
		sort.Slice(sites, func(i, j int) bool { return sites[i].Pos() < sites[j].Pos() })
		if ca.K >= len(sites) || sites[ca.K] != site {
			continue
		}
		in := site.(ssa.Instruction)
		sc := &Scope{c: c, fr: f, st: st, old: f.entry, vars: map[string]*Val{}, at: in.Block(), atInstr: in, anyLoop: true, pkg: f.fn.Pkg}
		for i, a := range args {
			sc.vars[fmt.Sprintf("arg%d", i)] = a
		}
		if fnv != nil {
			sc.vars["recv"] = fnv
		}
		where := fmt.Sprintf("call.%s.%d", sanitize(ca.Callee), ca.K)
		if ca.Assume {
			c.W.noteAssumed(fmt.Sprintf("%s: assumed at call %d of %s: %s", f.contract.FullName(), ca.K, ca.Callee, ca.Cl.Src))
			c.Assume(st.reach, f.evalSpecBool(sc.asAssumption(), ca.Cl, where), "environment assumption "+ca.Cl.Name)
			continue
		}
		t := f.evalSpecBool(sc.asGoal(), ca.Cl, where)
		o := c.Oblige("assert", where+"."+ca.Cl.Name, st.reach, t, c.W.fset.Position(in.Pos()), "site obligation: "+ca.Cl.Src)
		o.Inputs = f.inputTerms()
		c.Assume(st.reach, f.evalSpecBool(sc.asAssumption(), ca.Cl, where), "site obligation "+ca.Cl.Name+" (proved as "+o.Name+")")
	}
}

func ifaceMethodName(common *ssa.CallCommon) string {
	recvT := common.Value.Type()
	return shortTypeName(recvT) + "." + common.Method.Name()
}

func shortTypeName(t types.Type) string {
	return types.TypeString(t, func(p *types.Package) string { return shortPkg(p.Path()) })
}

func fnKey(fn *ssa.Function) string {
	if fn.Pkg == nil {
		if fn.Signature.Recv() != nil {
			return shortTypeName(fn.Signature.Recv().Type()) + "." + fn.Name()
		}
		return fn.String()
	}
	return shortPkg(fn.Pkg.Pkg.Path()) + "." + fn.RelString(fn.Pkg.Pkg)
}

func (f *Frame) callStatic(st *State, site ssa.CallInstruction, common *ssa.CallCommon, callee *ssa.Function, args []*Val, binds []*Val) *Val {
	c := f.c
	key := fnKey(callee)
	if m, ok := c.W.models[key]; ok {
		return m(f, st, site, args)
	}
	ek, isExt := c.W.externKey(f.scopePkg(), key)
	if isExt && c.W.externHavoc[ek+"#args"] {
		c.W.noteAssumed("extern " + key + " writes only the variables its pointer arguments point to (those are havocked), result unconstrained: " + c.W.externFrames[ek])
		for _, a := range args {
			f.havocPointee(st, a)
		}
		c.allocFrame(st)
		if rt := resultType(common); rt != nil {
			return c.freshVal("ext."+callee.Name(), rt)
		}
		return nil
	}
	if isExt && c.W.externHavoc[ek] {
		c.W.noteAssumed("extern " + key + " may write any memory (whole heap havocked, result unconstrained): " + c.W.externFrames[ek])
		return f.unknownCall(st, common, key)
	}
	if why := c.W.externFrames[ek]; isExt && c.W.externPure[ek] && len(args) > 0 {
		c.W.noteAssumed("extern " + key + " is a pure accessor (its result is a function of the receiver and arguments): " + why)
		if r := c.pureExtern(key, args[0], args[1:], resultType(common)); r != nil {
			return r
		}
	}
	if why := c.W.externFrames[ek]; isExt {
		c.W.noteAssumed("extern " + key + " leaves the verified heap unchanged, result unconstrained: " + why)
		lo := birthBase + c.nextObj + 1
		c.allocFrame(st)
		if rt := resultType(common); rt != nil {
			r := c.freshVal("ext."+callee.Name(), rt)
			if c.W.externFresh[ek] {
				f.assumeFreshIn(st, r, lo)
			}
			if c.W.externOld[ek] {
				f.assumeOldBelow(st, r, lo)
			}
			return r
		}
		return nil
	}
	if neutral(key) {
		return f.neutralCall(st, common, key)
	}
	if isPanicFn(key) {
		f.panicSite(st, site.(ssa.Instruction), "panic", TTrue, "call to "+key)
		return f.zeroResults(common)
	}
	opaque := false
	if f.contract != nil {
		// "opaque <callee substring>": this caller meets the callee through its contract even where the
		// callee is marked inline (the caller's obligations are about the arguments it passes)
		for _, sub := range f.contract.Extra["opaque"] {
			if strings.Contains(callee.Name(), strings.Fields(sub)[0]) {
				opaque = true
			}
		}
	}
	if top := f.topFrame(); top.contract != nil {
		// "track <callee>": the arguments of the latest call of a callee that is met through its contract or
		// inlined are recorded as for extern interface methods (specifications read them with lastarg)
		for _, tr := range top.contract.Extra["track"] {
			if strings.Fields(tr)[0] == callee.Name() {
				rec := args
				if callee.Signature.Recv() != nil && len(args) > 0 {
					rec = args[1:]
				}
				f.recordLastArgs(st, callee.Name(), rec)
			}
		}
	}
	if ct := c.W.contractFor(callee); ct != nil && (len(ct.Extra["inline"]) == 0 || opaque) {
		// a function under contract is always called through its contract
		// (including recursive calls); only the top frame's own body is executed.
		return f.callContract(st, site, common, ct, args)
	}
	if len(callee.Blocks) == 0 {
		return f.unknownCall(st, common, key)
	}
	// recursion / depth guard
	for fr := f; fr != nil; fr = fr.caller {
		if fr.fn == callee {
			return f.unknownCall(st, common, key+" (recursive)")
		}
	}
	if f.depth >= c.depthCap {
		return f.unknownCall(st, common, key+" (inline depth)")
	}
	if instrCount(callee) > 25 && !c.feasible(st.reach) {
		st.reach = TFalse
		st.br = nil
		return f.zeroResults(common)
	}
	nf := &Frame{c: c, fn: callee, env: map[ssa.Value]*Val{}, caller: f, depth: f.depth + 1}
	for i, p := range callee.Params {
		nf.env[p] = args[i]
	}
	for i, fv := range callee.FreeVars {
		if i < len(binds) {
			nf.env[fv] = binds[i]
		}
	}
	c.W.noteInlined(key)
	rst, res := nf.runBody(st.clone())
	st.adopt(rst)
	return f.wrapResults(common, res)
}

func (f *Frame) zeroResults(common *ssa.CallCommon) *Val {
	rt := resultType(common)
	if rt == nil {
		return nil
	}
	return f.c.zero(rt)
}

var neutralPrefixes = []string{
	"log.Print", "log.Output", "fmt.Print", "fmt.Fprint", "fmt.Sprint", "fmt.Errorf", "errors.New",
	"akita/v4/tracing.", "akita/v4/monitoring.", "os.Stdout", "(*log.Logger).Print",
	"reflect.TypeOf", "time.Now", "(*akita/v4/sim.HookableBase).InvokeHook", "(akita/v4/sim.HookableBase).InvokeHook",
	"(*akita/v4/sim.HookableBase).NumHooks", "akita/v4/sim.GetIDGenerator", "(*strings.Builder).",
	"strings.", "strconv.", "(*akita/v4/sim.TickingComponent).TickLater", "(*akita/v4/sim.TickingComponent).TickNow",
	"(akita/v4/sim.TickingComponent).TickLater", "runtime.",
}

func neutral(key string) bool {
	for _, p := range neutralPrefixes {
		if strings.HasPrefix(key, p) {
			return true
		}
	}
	return false
}

func isPanicFn(key string) bool {
	switch {
	case strings.HasPrefix(key, "log.Panic"), strings.HasPrefix(key, "log.Fatal"), key == "os.Exit",
		strings.HasPrefix(key, "(*log.Logger).Panic"), strings.HasPrefix(key, "(*log.Logger).Fatal"):
		return true
	}
	return false
}

// neutralCall: side-effect-free as far as the verified state is concerned;
// results are fresh. Listed in the evidence as an assumption.
func (f *Frame) neutralCall(st *State, common *ssa.CallCommon, key string) *Val {
	f.c.W.noteAssumed("extern frame-neutral: " + key)
	rt := resultType(common)
	if rt == nil {
		return nil
	}
	v := f.c.freshVal("ext."+key, rt)
	if strings.HasPrefix(key, "fmt.Errorf") || strings.HasPrefix(key, "errors.New") {
		// a freshly created, non-nil error value
		c := f.c
		c.Assume(TTrue, And(Neq(v.Tag, IntLitI(0)), Eq(v.Tag, IntLitI(int64(c.W.tagOfName("*errors.errorString")))), ILe(IntLitI(1), RefRoot(v.Pay))), "fmt.Errorf / errors.New return a non-nil error")
	}
	return v
}

func (f *Frame) unknownCall(st *State, common *ssa.CallCommon, what string) *Val {
	c := f.c
	c.note("call to %s has no body/contract: heap havocked, result unconstrained", what)
	c.havocAll(st)
	rt := resultType(common)
	if rt == nil {
		return nil
	}
	return c.freshVal("unk", rt)
}

func (c *Ctx) havocAll(st *State) {
	bound := c.bumpAlloc()
	for name := range st.mem {
		if !strings.HasPrefix(name, "G_") { // ghost state is not reachable from unknown code
			delete(st.mem, name)
		}
	}
	st.epoch = c.newEpoch(bound)
}

// bumpAlloc leaves a gap of object ids standing for objects allocated by
// unknown code or earlier loop iterations.
func (c *Ctx) bumpAlloc() int {
	c.nextObj += 100000
	return birthBase + c.nextObj
}

// ---- builtins ---------------------------------------------------------------------------

func (f *Frame) builtin(st *State, site ssa.CallInstruction, b *ssa.Builtin, common *ssa.CallCommon, args []*Val) *Val {
	c := f.c
	in := site.(ssa.Instruction)
	intT := types.Typ[types.Int]
	switch b.Name() {
	case "len":
		a := args[0]
		switch a.K {
		case KSlice:
			return scalar(a.Len, intT)
		case KScalar:
			if a.T.Sort == SStr {
				n := c.UF("str.len", c.idxSort, a.T)
				c.Assume(st.reach, c.idxLe(c.idxLit(0), n), "string length is non-negative")
				return scalar(n, intT)
			}
			if mt, ok := a.Ty.Underlying().(*types.Map); ok {
				n := Select(c.memGet(st, "MAPLEN_"+typeKey(mt), c.idxSort), a.T)
				c.Assume(st.reach, c.idxLe(c.idxLit(0), n), "map length is non-negative")
				c.note("len(map) is not linked to map contents")
				return scalar(n, intT)
			}
		case KTuple:
			return scalar(c.idxLit(int64(len(a.F))), intT)
		}
		if p, ok := a.Ty.Underlying().(*types.Pointer); ok {
			if arr, ok := p.Elem().Underlying().(*types.Array); ok {
				return scalar(c.idxLit(arr.Len()), intT)
			}
		}
		panic(unsupported("len of %s", a.Ty))
	case "cap":
		a := args[0]
		if a.K == KSlice {
			return scalar(a.Cap, intT)
		}
		if a.K == KTuple {
			return scalar(c.idxLit(int64(len(a.F))), intT)
		}
		panic(unsupported("cap of %s", a.Ty))
	case "append":
		return f.appendOp(st, in, args, common)
	case "copy":
		return f.copyOp(st, in, args[0], args[1])
	case "delete":
		mt := common.Args[0].Type().Underlying().(*types.Map)
		f.mapDelete(st, args[0], args[1], mt)
		return nil
	case "min", "max":
		acc := args[0]
		for _, a := range args[1:] {
			lt := f.binop(st, in, tokLSS, a, acc, types.Typ[types.Bool])
			if b.Name() == "max" {
				lt = f.binop(st, in, tokLSS, acc, a, types.Typ[types.Bool])
			}
			acc = c.iteVal(lt.T, a, acc)
		}
		return acc
	case "print", "println":
		return nil
	case "ssa:wrapnilchk":
		f.nilCheck(st, in, args[0].T)
		return args[0]
	case "clear":
		a := args[0]
		if a.K != KSlice {
			panic(unsupported("clear of a map"))
		}
		f.zeroRange(st, a.Base, a.Off, a.Len, elemOf(a.Ty))
		return nil
	}
	panic(unsupported("builtin %s", b.Name()))
}

// elemType of a slice value
func elemOf(t types.Type) types.Type {
	return t.Underlying().(*types.Slice).Elem()
}

// appendOp models append faithfully: in place when capacity allows, else a
// fresh backing array holding a copy.
func (f *Frame) appendOp(st *State, in ssa.Instruction, args []*Val, common *ssa.CallCommon) *Val {
	c := f.c
	s, t := args[0], args[1]
	if t.K != KSlice {
		c.note("append of string bytes abstracted")
		return c.freshVal("append", s.Ty)
	}
	et := elemOf(s.Ty)
	// number of appended elements must be syntactically small
	var n int64 = -1
	if t.Len.C != nil && t.Len.C.IsInt64() {
		n = t.Len.C.Int64()
	}
	newLen := c.idxAdd(s.Len, t.Len)
	fits := c.idxLe(newLen, s.Cap)
	c.addTrig(s.Len) // the position of the first appended element is an instantiation point
	if n >= 0 && n <= 16 {
		// in-place branch: write elements after len
		inPlace := st.clone()
		for i := int64(0); i < n; i++ {
			v := c.load(st, RefElem(t.Base, c.idxAdd(t.Off, c.idxLit(i))), et)
			c.store(inPlace, RefElem(s.Base, c.idxAdd(s.Off, c.idxAdd(s.Len, c.idxLit(i)))), et, v)
		}
		// grow branch: fresh array; old elements copied by a quantified axiom
		grow := st.clone()
		nb := c.newObj()
		newCap := c.Fresh("append.cap", c.idxSort)
		c.Assume(st.reach, And(c.idxLe(newLen, newCap), c.idxLt(newCap, c.idxLit(1<<48))), "append grows capacity to at least the new length")
		f.copyRange(grow, nb, c.idxLit(0), s.Base, s.Off, s.Len, et)
		for i := int64(0); i < n; i++ {
			v := c.load(st, RefElem(t.Base, c.idxAdd(t.Off, c.idxLit(i))), et)
			c.store(grow, RefElem(nb, c.idxAdd(s.Len, c.idxLit(i))), et, v)
		}
		inPlace.reach = And(st.reach, fits)
		grow.reach = And(st.reach, Not(fits))
		m := c.mergeStates([]*State{inPlace, grow})
		st.mem, st.epoch = m.mem, m.epoch
		return &Val{K: KSlice, Ty: s.Ty, Base: Ite(fits, s.Base, nb), Off: Ite(fits, s.Off, c.idxLit(0)),
			Len: newLen, Cap: Ite(fits, s.Cap, newCap)}
	}
	// symbolic count: copy ranges in both branches
	inPlace := st.clone()
	f.copyRange(inPlace, s.Base, c.idxAdd(s.Off, s.Len), t.Base, t.Off, t.Len, et)
	grow := st.clone()
	nb := c.newObj()
	newCap := c.Fresh("append.cap", c.idxSort)
	c.Assume(st.reach, And(c.idxLe(newLen, newCap), c.idxLt(newCap, c.idxLit(1<<48))), "append grows capacity to at least the new length")
	f.copyRange(grow, nb, c.idxLit(0), s.Base, s.Off, s.Len, et)
	f.copyRange(grow, nb, s.Len, t.Base, t.Off, t.Len, et)
	inPlace.reach = And(st.reach, fits)
	grow.reach = And(st.reach, Not(fits))
	m := c.mergeStates([]*State{inPlace, grow})
	st.mem, st.epoch = m.mem, m.epoch
	return &Val{K: KSlice, Ty: s.Ty, Base: Ite(fits, s.Base, nb), Off: Ite(fits, s.Off, c.idxLit(0)),
		Len: newLen, Cap: Ite(fits, s.Cap, newCap)}
}

// copyRange: dst[dOff+i] = src[sOff+i] for 0 <= i < n (memmove semantics:
// the source is read from the pre-state). Constant n is unrolled; otherwise
// the affected memories are replaced by fresh arrays constrained by a
// quantified axiom.
func (f *Frame) copyRange(st *State, dBase, dOff, sBase, sOff, n Term, et types.Type) {
	c := f.c
	if n.C != nil && n.C.IsInt64() && n.C.Int64() <= 64 {
		k := n.C.Int64()
		vals := make([]*Val, k)
		for i := int64(0); i < k; i++ {
			vals[i] = c.load(st, RefElem(sBase, c.idxAdd(sOff, c.idxLit(i))), et)
		}
		for i := int64(0); i < k; i++ {
			c.store(st, RefElem(dBase, c.idxAdd(dOff, c.idxLit(i))), et, vals[i])
		}
		return
	}
	// symbolic but provably short: guarded element-wise copy (quantifier-free)
	if !isAggregate(et) {
		for _, bnd := range []int64{8, 16} {
			if !c.feasible(And(st.reach, c.idxLt(c.idxLit(bnd), n))) {
				vals := make([]*Val, bnd)
				for i := int64(0); i < bnd; i++ {
					vals[i] = c.load(st, RefElem(sBase, c.idxAdd(sOff, c.idxLit(i))), et)
				}
				for i := int64(0); i < bnd; i++ {
					addr := RefElem(dBase, c.idxAdd(dOff, c.idxLit(i)))
					old := c.load(st, addr, et)
					c.store(st, addr, et, c.iteVal(c.idxLt(c.idxLit(i), n), vals[i], old))
				}
				return
			}
		}
	}
	if isAggregate(et) {
		// aggregate elements, symbolic count: the copied window of the destination becomes
		// unconstrained (a sound over-approximation; nothing is then known about the copies)
		c.note("symbolic-length copy of %s elements abstracted: destination window havocked", et)
		f.havocLocs(st, []Loc{{kind: "elems", sl: &Val{K: KSlice, Base: dBase, Off: dOff, Len: n, Cap: n}, ty: et}})
		return
	}
	// symbolic length: the destination array is replaced by an array constrained
	// by a quantified axiom over the index alone
	c.usesQuant = true
	c.needQuantHeap = true // the copy axiom below must reach the solver
	for _, lm := range c.elemMems(et) {
		en := "E" + lm.name[1:]
		e := c.elemGet(st, en, lm.sort)
		inner := SArr(c.idxSort, lm.sort)
		na := c.Fresh("cp."+en, inner)
		i := raw("i", c.idxSort)
		inWin := And(c.idxLe(dOff, i), c.idxLt(i, c.idxAdd(dOff, n)))
		src := Select(Select(e, sBase), c.idxAdd(sOff, c.idxSub(i, dOff)))
		c.assumes = append(c.assumes, Assume{declPos: len(c.decls), frameAx: true, why: "copy of a symbolic range",
			t: raw(fmt.Sprintf("(forall ((i %s)) (! (= (select %s i) (ite %s %s (select (select %s %s) i))) :pattern ((select %s i))))",
				c.idxSort, na.S, inWin.S, src.S, e.S, dBase.S, na.S), SBool)})
		c.copyRecs[na.S] = copyRec{e: e, dBase: dBase, dOff: dOff, n: n, sBase: sBase, sOff: sOff}
		c.memSet(st, en, Store(e, dBase, na))
	}
}

type leafMem struct {
	name       string
	sort       string
	scalarElem bool
}

func (c *Ctx) elemMems(et types.Type) []leafMem {
	switch et.Underlying().(type) {
	case *types.Struct, *types.Array:
		panic(unsupported("symbolic-length copy of aggregate elements (%s)", et))
	}
	var out []leafMem
	for _, l := range c.cellLeaves(et) {
		out = append(out, leafMem{c.memName(et) + l.suffix, l.sort, true})
	}
	return out
}

func (f *Frame) copyOp(st *State, in ssa.Instruction, dst, src *Val) *Val {
	c := f.c
	intT := types.Typ[types.Int]
	if src.K != KSlice {
		c.note("copy from string abstracted")
		c.havocAll(st)
		return c.freshVal("copy", intT)
	}
	n := c.Def("copy.n", Ite(c.idxLt(dst.Len, src.Len), dst.Len, src.Len))
	f.copyRange(st, dst.Base, dst.Off, src.Base, src.Off, n, elemOf(dst.Ty))
	return scalar(n, intT)
}

// ---- calling through a contract -----------------------------------------------------------

func (f *Frame) callContract(st *State, site ssa.CallInstruction, common *ssa.CallCommon, ct *Contract, args []*Val) *Val {
	c := f.c
	callee := ct.Fn
	sc := &Scope{c: c, fr: nil, st: st, old: st, vars: map[string]*Val{}, pkg: callee.Pkg}
	for i, p := range callee.Params {
		if i < len(args) {
			sc.vars[p.Name()] = args[i]
		}
	}
	in := site.(ssa.Instruction)
	// 1. preconditions
	for _, r := range ct.Requires {
		t := sc.asGoal().evalBool(r.E)
		label := f.siteLabel(in, "call."+callee.Name()+".requires."+r.Name)
		o := c.Oblige("callreq", label, st.reach, t, f.pos(in), "precondition of "+ct.FullName()+": "+r.Src)
		o.Inputs = f.topFrame().inputTerms()
	}
	// 2. frame
	pre := st.clone()
	if !ct.ModGiven {
		if !ct.Pure {
			c.note("callee %s has no modifies clause: heap havocked at call", ct.FullName())
			c.havocAll(st)
		}
	} else {
		f.havocLocations(st, sc, ct.Modifies)
	}
	freshBound := 0
	if !ct.Pure {
		// objects the callee allocates have contents only its postconditions describe
		freshBound = birthBase + c.nextObj + 1
		c.allocFrame(st)
	}
	// 3. results and postconditions
	rt := resultType(common)
	var res *Val
	post := &Scope{c: c, fr: nil, st: st, old: pre, vars: map[string]*Val{}, pkg: callee.Pkg, freshBound: freshBound}
	for k, v := range sc.vars {
		post.vars[k] = v
	}
	if rt != nil {
		res = c.freshVal("res."+callee.Name(), rt)
		bindResults(post, callee, res)
	}
	for _, e := range ct.Ensures {
		t := post.asAssumption().evalBool(e.E)
		c.Assume(st.reach, t, "ensures "+e.Name+" of "+ct.FullName())
	}
	c.W.noteContractUse(ct)
	return res
}

func bindResults(sc *Scope, fn *ssa.Function, res *Val) {
	results := fn.Signature.Results()
	if results.Len() == 1 {
		sc.vars["result"] = res
		sc.vars["result0"] = res
		if n := results.At(0).Name(); n != "" && n != "_" {
			sc.vars[n] = res
		}
		return
	}
	for i := 0; i < results.Len(); i++ {
		sc.vars[fmt.Sprintf("result%d", i)] = res.F[i]
		if n := results.At(i).Name(); n != "" && n != "_" {
			sc.vars[n] = res.F[i]
		}
	}
}

func instrCount(fn *ssa.Function) int {
	n := 0
	for _, b := range fn.Blocks {
		n += len(b.Instrs)
	}
	return n
}

// zeroRange sets dst[dOff .. dOff+n) to the zero value (clear builtin).
func (f *Frame) zeroRange(st *State, dBase, dOff, n Term, et types.Type) {
	c := f.c
	if n.C != nil && n.C.IsInt64() && n.C.Int64() <= 64 {
		for i := int64(0); i < n.C.Int64(); i++ {
			c.store(st, RefElem(dBase, c.idxAdd(dOff, c.idxLit(i))), et, c.zero(et))
		}
		return
	}
	if isAggregate(et) {
		panic(unsupported("clear of a slice of aggregates with symbolic length"))
	}
	for _, lm := range c.elemMems(et) {
		en := "E" + lm.name[1:]
		e := c.elemGet(st, en, lm.sort)
		inner := SArr(c.idxSort, lm.sort)
		na := c.Fresh("clr."+en, inner)
		z, _ := c.zeroOfSort(lm.sort)
		i := raw("i", c.idxSort)
		inWin := And(c.idxLe(dOff, i), c.idxLt(i, c.idxAdd(dOff, n)))
		c.assumes = append(c.assumes, Assume{declPos: len(c.decls), heapAx: true, why: "clear of a symbolic range",
			t: raw(fmt.Sprintf("(forall ((i %s)) (! (= (select %s i) (ite %s %s (select (select %s %s) i))) :pattern ((select %s i))))",
				c.idxSort, na.S, inWin.S, z.S, e.S, dBase.S, na.S), SBool)})
		c.copyRecs[na.S] = copyRec{e: e, dBase: dBase, dOff: dOff, n: n, zero: true, zeroVal: z}
		c.memSet(st, en, Store(e, dBase, na))
	}
}

// recordLastArgs keeps, as ghost state, the arguments of the latest call of an extern interface method
// (specifications read them with lastarg("Method", k)): the only thing a caller can know about such a
// component is what it was last told.
func (f *Frame) recordLastArgs(st *State, method string, args []*Val) {
	c := f.c
	for i, a := range args {
		var comps []Term
		switch a.K {
		case KScalar:
			comps = []Term{a.T}
		case KSlice:
			comps = []Term{a.Base, a.Off, a.Len, a.Cap}
		case KIface:
			comps = []Term{a.Tag, a.Pay}
		default:
			continue
		}
		for j, t := range comps {
			st.mem[c.lastArgGhost(method, i, j, t.Sort)] = t
		}
		if c.lastArgShape == nil {
			c.lastArgShape = map[string]*Val{}
		}
		c.lastArgShape[fmt.Sprintf("%s.%d", method, i)] = a
	}
}

func (c *Ctx) lastArgGhost(method string, i, j int, sort string) string {
	name := fmt.Sprintf("G_last.%s.%d.%d", method, i, j)
	if _, ok := c.memInit[name]; !ok {
		n := sanitize(name + "_0")
		c.decls = append(c.decls, fmt.Sprintf("(declare-const %s %s)", n, sort))
		c.memInit[name] = raw(n, sort)
		c.memSort[name] = sort
	}
	return name
}

// lastArg rebuilds the recorded argument k of the latest call of method on the path of st.
func (c *Ctx) lastArg(st *State, method string, k int) *Val {
	shape := c.lastArgShape[fmt.Sprintf("%s.%d", method, k)]
	if shape == nil {
		return nil
	}
	get := func(j int, sort string) Term { return c.memPeek(st, c.lastArgGhost(method, k, j, sort)) }
	switch shape.K {
	case KScalar:
		return scalar(get(0, shape.T.Sort), shape.Ty)
	case KSlice:
		return &Val{K: KSlice, Ty: shape.Ty, Base: get(0, shape.Base.Sort), Off: get(1, shape.Off.Sort), Len: get(2, shape.Len.Sort), Cap: get(3, shape.Cap.Sort)}
	case KIface:
		return &Val{K: KIface, Ty: shape.Ty, Tag: get(0, shape.Tag.Sort), Pay: get(1, shape.Pay.Sort)}
	}
	return nil
}

// havocPointee: the variable a pointer argument of a writes-args extern points to gets an unconstrained value
// (pointers inside a short argument slice of interface values, as in fmt.Sscanf(s, format, &x, &y), included).
func (f *Frame) havocPointee(st *State, a *Val) {
	c := f.c
	switch a.K {
	case KScalar:
		if p, ok := a.Ty.Underlying().(*types.Pointer); ok && a.T.Sort == SRef {
			c.store(st, a.T, p.Elem(), c.freshVal("argw", p.Elem()))
		}
	case KIface:
		tagID := -1
		if a.Tag.C != nil {
			tagID = int(a.Tag.C.Int64())
		} else {
			// the dynamic type the path condition pins down (the value was stored into the argument array just before)
			for _, id := range c.W.tagIDs() {
				if _, isPtr := c.W.tagType(id).Underlying().(*types.Pointer); !isPtr {
					continue
				}
				if c.feasible(And(st.reach, Eq(a.Tag, IntLitI(int64(id))))) && !c.feasible(And(st.reach, Neq(a.Tag, IntLitI(int64(id))))) {
					tagID = id
					break
				}
			}
		}
		if tagID < 0 {
			panic(unsupported("writes-args extern: pointer argument of unknown dynamic type"))
		}
		if tagID == 0 {
			return
		}
		dt := c.W.tagType(tagID)
		if p, ok := dt.Underlying().(*types.Pointer); ok {
			c.store(st, a.Pay, p.Elem(), c.freshVal("argw", p.Elem()))
		}
	case KSlice:
		if a.Len.C == nil || a.Len.C.Int64() > 8 {
			if _, isStr := a.Ty.Underlying().(*types.Slice); isStr {
				if a.Len.C == nil {
					return // e.g. a []byte input: read only
				}
			}
			panic(unsupported("writes-args extern: argument slice of unknown length"))
		}
		et := a.Ty.Underlying().(*types.Slice).Elem()
		for i := int64(0); i < a.Len.C.Int64(); i++ {
			f.havocPointee(st, c.load(st, RefElem(a.Base, c.idxAdd(a.Off, c.idxLit(i))), et))
		}
	}
}
