package main

// C07: the register stores implement the InstEmuState interface contract.
// A contract line `//@ implements <Method> view <emu|timing>` asks the engine
// to prove that the method, run on the concrete store, has exactly the effect
// the interface contract (isa.go) prescribes on the array-of-cells view.

import (
	"fmt"
	"go/types"
	"os"
	"strings"

	"golang.org/x/tools/go/ssa"
)

type regView struct {
	name   string
	sgpr   func(st *State, k Term) Term
	vgpr   func(st *State, l, k Term) Term
	scal   map[string]func(st *State) Term // G_scc, G_vcc, G_exec, G_pc, G_m0
	wf     func(c *Ctx, st *State) Term    // well-formedness of the concrete store
	nS, nV Term                            // number of scalar / vector registers in this wavefront's windows
	bases  func(st *State) [2]Term
	others func(st0, st1 *State, j Term) (Term, Term) // bytes outside this wavefront's windows are unchanged
}

func (c *Ctx) fieldOf(st *State, obj Term, structT types.Type, name string) *Val {
	s := structT.Underlying().(*types.Struct)
	for i := 0; i < s.NumFields(); i++ {
		if s.Field(i).Name() == name {
			return c.defVal("vw."+name, c.load(st, RefSub(obj, i), s.Field(i).Type()))
		}
	}
	panic(unsupported("no field %s in %s", name, structT))
}

func (c *Ctx) le32(st *State, base, off Term) Term {
	u8 := types.Typ[types.Uint8]
	var acc Term
	for i := int64(0); i < 4; i++ {
		b := c.load(st, RefElem(base, BVAdd(off, BVLitI(i, 64))), u8).T
		if i == 0 {
			acc = b
		} else {
			acc = Concat(b, acc)
		}
	}
	return acc
}

// emuView: emu.Wavefront stores s_k at SRegFile[4k..4k+4) and v_k of lane l at VRegFile[1024l+4k..).
func (c *Ctx) emuView(wf Term, wfT types.Type) *regView {
	v := &regView{name: "emu", nS: BVLitI(102, 64), nV: BVLitI(256, 64)}
	hdr := func(st *State, f string) *Val { return c.fieldOf(st, wf, wfT, f) }
	v.sgpr = func(st *State, k Term) Term {
		h := hdr(st, "SRegFile")
		return c.le32(st, h.Base, BVAdd(h.Off, BVMul(BVLitI(4, 64), k)))
	}
	v.vgpr = func(st *State, l, k Term) Term {
		h := hdr(st, "VRegFile")
		return c.le32(st, h.Base, BVAdd(h.Off, BVAdd(BVMul(BVLitI(1024, 64), l), BVMul(BVLitI(4, 64), k))))
	}
	v.scal = map[string]func(st *State) Term{
		"G_scc":  func(st *State) Term { return hdr(st, "scc").T },
		"G_vcc":  func(st *State) Term { return hdr(st, "vcc").T },
		"G_exec": func(st *State) Term { return hdr(st, "exec").T },
		"G_pc":   func(st *State) Term { return hdr(st, "pc").T },
		"G_m0":   func(st *State) Term { return hdr(st, "M0").T },
	}
	v.bases = func(st *State) [2]Term { return [2]Term{hdr(st, "SRegFile").Base, hdr(st, "VRegFile").Base} }
	v.wf = func(c *Ctx, st *State) Term {
		s, vv := hdr(st, "SRegFile"), hdr(st, "VRegFile")
		return And(Eq(s.Len, BVLitI(408, 64)), Eq(vv.Len, BVLitI(65536, 64)), Neq(s.Base, TNull), Neq(vv.Base, TNull),
			Eq(s.Off, BVLitI(0, 64)), Eq(vv.Off, BVLitI(0, 64)), // whole allocations (NewWavefront), not sub-slices
			Neq(RefRoot(s.Base), RefRoot(vv.Base)), Neq(RefRoot(s.Base), RefRoot(wf)), Neq(RefRoot(vv.Base), RefRoot(wf)))
	}
	return v
}

type implInfo struct {
	method string
	view   *regView
	recv   Term
}

func parseImplements(ct *Contract) (method, view string, ok bool) {
	xs := ct.Extra["implements"]
	if len(xs) == 0 {
		return "", "", false
	}
	f := strings.Fields(xs[0])
	if len(f) >= 3 && f[1] == "view" {
		return f[0], f[2], true
	}
	return f[0], "emu", true
}

func (f *Frame) implView(ct *Contract) *regView {
	if f.view != nil {
		return f.view
	}
	f.view = f.implView0(ct)
	return f.view
}

func (f *Frame) implView0(ct *Contract) *regView {
	c := f.c
	_, vn, _ := parseImplements(ct)
	recv := f.env[f.fn.Params[0]]
	switch vn {
	case "emu":
		return c.emuView(recv.T, deref(f.fn.Params[0].Type()))
	case "timing":
		return c.timingView(f, recv.T, deref(f.fn.Params[0].Type()))
	}
	panic(unsupported("unknown register view %s", vn))
}

// implPre: bind the ghost state to the concrete store at entry.
func implPre(f *Frame, st *State, ct *Contract) {
	method, _, ok := parseImplements(ct)
	if !ok {
		return
	}
	c := f.c
	c.isaPrelude()
	for _, g := range ghostOrder {
		c.ghost(st, g)
	}
	view := f.implView(ct)
	c.Assume(TTrue, view.wf(c, st), "register store is well-formed (files allocated with their fixed sizes)")
	for _, g := range sortedKeys(view.scal) {
		fn := view.scal[g]
		if g == "G_pc" && view.name == "timing" {
			continue
		}
		c.Assume(TTrue, Eq(c.ghost(st, g), fn(st)), "abstraction: "+g)
	}
	if method != "ReadOperand" && method != "WriteOperand" {
		implBytesPre(f, st, ct, method, view)
		return
	}
	// operand / lane preconditions of the interface contract
	var op, lane Term
	for _, p := range f.fn.Params {
		switch p.Name() {
		case "operand":
			op = f.env[p].T
		case "laneID":
			lane = f.env[p].T
		}
	}
	if lane.S != "" {
		c.Assume(TTrue, And(BVSle(BVLitI(0, 64), lane), BVSlt(lane, BVLitI(64, 64))), "lane id in 0..63")
	}
	if op.S != "" {
		c.Assume(TTrue, c.operandWF(st, op, method, view), "operand descriptor well-formed (decoder contract) and inside the wavefront's register windows")
	}
}

// operandWF: the descriptor well-formedness the interface contract requires.
func (c *Ctx) operandWF(st *State, op Term, method string, view *regView) Term {
	w := c.W
	d := c.operandDesc(st, op)
	isReg := Eq(d.ot, BVLitI(w.instsConst("RegOperand"), 64))
	okKinds := Or(isReg, Eq(d.ot, BVLitI(w.instsConst("IntOperand"), 64)), Eq(d.ot, BVLitI(w.instsConst("FloatOperand"), 64)),
		Eq(d.ot, BVLitI(w.instsConst("LiteralConstant"), 64)))
	nb := raw(fmt.Sprintf("(isa.nb %s %s)", d.bs.S, d.rc.S), SBV(64))
	isV := raw("(isa.isV "+d.rt.S+")", SBool)
	isS := raw("(isa.isS "+d.rt.S+")", SBool)
	defd := raw(fmt.Sprintf("(isa.wrdefined %s %s %s)", d.rt.S, d.bs.S, d.rc.S), SBool)
	k := func(n string) Term { return BVLitI(w.instsConst(n), 64) }
	cells := BVUDiv(BVAdd(nb, BVLitI(3, 64)), BVLitI(4, 64))
	inFile := And(Implies(isV, BVSle(BVAdd(BVSub(d.rt, k("V0")), cells), view.nV)),
		Implies(isS, BVSle(BVAdd(BVSub(d.rt, k("S0")), cells), view.nS)))
	regOK := And(Neq(d.reg, TNull), Eq(d.bs, raw("(isa.regbs "+d.rt.S+")", SBV(64))), BVSle(BVLitI(0, 64), d.rc), BVSle(d.rc, BVLitI(16, 64)),
		Or(Eq(nb, BVLitI(4, 64)), Eq(nb, BVLitI(8, 64)), Eq(nb, BVLitI(1, 64))), defd, inFile)
	c.W.noteAssumed("register descriptors come from the insts.Regs table (ByteSize is a function of RegType)")
	wf := And(Neq(op, TNull), okKinds, Implies(isReg, regOK), c.floatOperandWF(d))
	if strings.HasPrefix(method, "Write") {
		wf = And(wf, isReg)
	}
	return wf
}

// implPost: the concrete effect equals the contract's effect on the view.
func implPost(f *Frame, rst *State, ct *Contract, post *Scope) {
	method, _, ok := parseImplements(ct)
	if !ok {
		return
	}
	c := f.c
	view := f.implView(ct)
	if method != "ReadOperand" && method != "WriteOperand" {
		implBytesPost(f, rst, ct, post, method, view)
		return
	}
	pos := c.W.fset.Position(f.fn.Pos())
	entry := f.entry
	var op, lane, value Term
	for _, p := range f.fn.Params {
		switch p.Name() {
		case "operand":
			op = f.env[p].T
		case "laneID":
			lane = f.env[p].T
		case "value":
			value = f.env[p].T
		}
	}
	inputs := f.inputTerms()
	if op.S != "" {
		d := c.operandDesc(entry, op)
		inputs["operand.type"], inputs["operand.regtype"], inputs["operand.bytesize"], inputs["operand.regcount"] = d.ot, d.rt, d.bs, d.rc
		inputs["operand.int"], inputs["operand.lit"] = d.intv, d.lit
	}
	for _, g := range []string{"G_scc", "G_vcc", "G_exec", "G_m0"} {
		inputs[g] = c.ghost(entry, g)
	}
	// abstraction relation G[cell] = view(cell), instantiated at exactly the cells the
	// contract's functions read: the operand's (up to two) cells and the skolem cell
	skK, skL := c.Fresh("sk.reg", SBV(64)), c.Fresh("sk.lane", SBV(64))
	{
		d := c.operandDesc(entry, op)
		k := func(n string) Term { return BVLitI(c.W.instsConst(n), 64) }
		sIdx := BVSub(d.rt, k("S0"))
		vIdx := BVSub(d.rt, k("V0"))
		sg, vg := c.ghost(entry, "G_sgpr"), c.ghost(entry, "G_vgpr")
		for _, ix := range []Term{sIdx, BVAdd(sIdx, BVLitI(1, 64)), skK} {
			inS := And(BVSle(BVLitI(0, 64), ix), BVSlt(ix, view.nS))
			c.Assume(TTrue, Implies(inS, Eq(Select(sg, ix), view.sgpr(entry, ix))), "abstraction: s_k is the little-endian word at its offset")
		}
		for _, p := range [][2]Term{{lane, vIdx}, {lane, BVAdd(vIdx, BVLitI(1, 64))}, {skL, skK}} {
			inV := And(BVSle(BVLitI(0, 64), p[1]), BVSlt(p[1], view.nV), BVSle(BVLitI(0, 64), p[0]), BVSlt(p[0], BVLitI(64, 64)))
			c.Assume(TTrue, Implies(inV, Eq(Select(Select(vg, p[0]), p[1]), view.vgpr(entry, p[0], p[1]))), "abstraction: v_k of lane l is the little-endian word at its offset")
		}
	}
	switch method {
	case "ReadOperand":
		want, _ := c.rdOperand(entry, op, lane)
		res := post.vars["result"]
		o := c.Oblige("implements", "ReadOperand.value", rst.reach, Eq(res.T, want), pos,
			"ReadOperand returns what the interface contract prescribes for the array-of-cells view")
		o.Inputs = inputs
		o.Results = map[string]Term{"0": res.T}
		// reading changes nothing
		f.viewUnchanged(rst, view, pos, inputs, "ReadOperand")
	case "WriteOperand":
		model := entry.clone()
		for _, g := range ghostOrder {
			c.ghost(model, g)
		}
		c.wrOperand(model, op, lane, value)
		inS := And(BVSle(BVLitI(0, 64), skK), BVSlt(skK, view.nS))
		inV := And(BVSle(BVLitI(0, 64), skK), BVSlt(skK, view.nV), BVSle(BVLitI(0, 64), skL), BVSlt(skL, BVLitI(64, 64)))
		o := c.Oblige("implements", "WriteOperand.sgpr", And(rst.reach, inS), Eq(view.sgpr(rst, skK), Select(model.mem["G_sgpr"], skK)), pos,
			"after WriteOperand every scalar cell holds what the interface contract prescribes (written cells replaced, all others unchanged)")
		o.Inputs = inputs
		o = c.Oblige("implements", "WriteOperand.vgpr", And(rst.reach, inV), Eq(view.vgpr(rst, skL, skK), Select(Select(model.mem["G_vgpr"], skL), skK)), pos,
			"after WriteOperand every vector cell of every lane holds what the interface contract prescribes")
		o.Inputs = inputs
		for _, g := range []string{"G_scc", "G_vcc", "G_exec", "G_m0", "G_pc"} {
			if g == "G_pc" {
				o = c.Oblige("implements", "WriteOperand.pc", rst.reach, Eq(view.scal[g](rst), view.scal[g](entry)), pos, "WriteOperand leaves PC unchanged")
				o.Inputs = inputs
				continue
			}
			o = c.Oblige("implements", "WriteOperand."+strings.TrimPrefix(g, "G_"), rst.reach, Eq(view.scal[g](rst), model.mem[g]), pos,
				"after WriteOperand "+strings.TrimPrefix(g, "G_")+" holds what the interface contract prescribes (halves alias exactly)")
			o.Inputs = inputs
		}
		// the store stays well-formed
		if os.Getenv("GOCV_SPLIT") != "" {
			for i, cj := range splitAnd(view.wf(c, rst)) {
				c.Oblige("implements", fmt.Sprintf("WriteOperand.wf.%d", i), rst.reach, cj, pos, cj.S)
			}
		}
		c.Oblige("implements", "WriteOperand.wf", rst.reach, view.wf(c, rst), pos, "register store remains well-formed")
		if view.others != nil {
			j := c.Fresh("sk.byte", SBV(64))
			sOK, vOK := view.others(entry, rst, j)
			o = c.Oblige("implements", "WriteOperand.otherwf.sfile", rst.reach, sOK, pos, "bytes of the shared scalar file outside this wavefront's window are unchanged")
			o.Inputs = inputs
			o = c.Oblige("implements", "WriteOperand.otherwf.vfile", rst.reach, vOK, pos, "bytes of the shared vector file outside this wavefront's lane windows are unchanged")
			o.Inputs = inputs
		}
	default:
		panic(unsupported("implements %s: no obligations defined", method))
	}
}

func (f *Frame) viewUnchanged(rst *State, view *regView, pos interface{}, inputs map[string]Term, what string) {
	c := f.c
	p := c.W.fset.Position(f.fn.Pos())
	skK, skL := c.Fresh("sk.reg", SBV(64)), c.Fresh("sk.lane", SBV(64))
	var eqs []Term
	eqs = append(eqs, Eq(view.sgpr(rst, skK), view.sgpr(f.entry, skK)), Eq(view.vgpr(rst, skL, skK), view.vgpr(f.entry, skL, skK)))
	for _, fn := range view.scal {
		eqs = append(eqs, Eq(fn(rst), fn(f.entry)))
	}
	o := c.Oblige("implements", what+".pure", rst.reach, And(eqs...), p, what+" changes no register cell")
	o.Inputs = inputs
}

// timingView: wavefront.Wavefront keeps SCC/VCC/EXEC/M0/PC itself; s_k lives in the CU's scalar
// file at SRegOffset+4k and v_k of lane l in the SIMD's vector file at VRegOffset+4k+l*ByteSizePerLane.
// The wiring wf.RegAccessor = &CURegFileAccessor{CU: cu, WF: wf} (cu.ComputeUnit) is an assumption.
func (c *Ctx) timingView(f *Frame, wf Term, wfT types.Type) *regView {
	w := c.W
	accT := w.findType("cu.CURegFileAccessor")
	cuT := w.findType("cu.ComputeUnit")
	srfT := w.findType("cu.SimpleRegisterFile")
	if accT == nil || cuT == nil || srfT == nil {
		panic(unsupported("package amd/timing/cu is not loaded (needed by the timing register view)"))
	}
	v := &regView{name: "timing", nS: c.Fresh("nSGPR", SBV(64)), nV: c.Fresh("nVGPR", SBV(64))}
	fld := func(st *State, obj Term, t types.Type, name string) *Val { return c.fieldOf(st, obj, t, name) }
	type parts struct {
		acc, cu, sfile, vfile     Term
		sst, vst                  *Val
		soff, voff, bpl, simd     Term
		accTag, sTag, vTag, accWF Term
		vrf                       *Val
	}
	get := func(st *State) parts {
		var p parts
		ra := fld(st, wf, wfT, "RegAccessor")
		p.acc, p.accTag = ra.Pay, ra.Tag
		p.accWF = fld(st, p.acc, accT, "WF").T
		p.cu = fld(st, p.acc, accT, "CU").T
		sf := fld(st, p.cu, cuT, "SRegFile")
		p.sfile, p.sTag = sf.Pay, sf.Tag
		p.vrf = fld(st, p.cu, cuT, "VRegFile")
		p.simd = fld(st, wf, wfT, "SIMDID").T
		ifT := elemOf(p.vrf.Ty)
		ve := c.defVal("vw.vfile", c.load(st, RefElem(p.vrf.Base, BVAdd(p.vrf.Off, p.simd)), ifT))
		p.vfile, p.vTag = ve.Pay, ve.Tag
		p.sst = fld(st, p.sfile, srfT, "storage")
		p.vst = fld(st, p.vfile, srfT, "storage")
		p.bpl = fld(st, p.vfile, srfT, "ByteSizePerLane").T
		p.soff = fld(st, wf, wfT, "SRegOffset").T
		p.voff = fld(st, wf, wfT, "VRegOffset").T
		return p
	}
	v.sgpr = func(st *State, k Term) Term {
		p := get(st)
		return c.le32(st, p.sst.Base, BVAdd(p.sst.Off, BVAdd(p.soff, BVMul(BVLitI(4, 64), k))))
	}
	v.vgpr = func(st *State, l, k Term) Term {
		p := get(st)
		return c.le32(st, p.vst.Base, BVAdd(p.vst.Off, BVAdd(p.voff, BVAdd(BVMul(BVLitI(4, 64), k), BVMul(l, BVLitI(1024, 64))))))
	}
	sc := func(name string) func(st *State) Term {
		return func(st *State) Term { return fld(st, wf, wfT, name).T }
	}
	v.scal = map[string]func(st *State) Term{"G_scc": sc("scc"), "G_vcc": sc("vcc"), "G_exec": sc("exec"), "G_pc": sc("pc"), "G_m0": sc("M0")}
	v.wf = func(c *Ctx, st *State) Term {
		p := get(st)
		z := BVLitI(0, 64)
		lim := BVLitI(1<<40, 64)
		srfTag := c.typeTag(types.NewPointer(srfT))
		return And(
			Eq(p.accTag, c.typeTag(types.NewPointer(accT))), Neq(p.acc, TNull), Eq(p.accWF, wf), Neq(p.cu, TNull),
			Eq(p.sTag, srfTag), Neq(p.sfile, TNull), Eq(p.vTag, srfTag), Neq(p.vfile, TNull),
			BVSle(z, p.simd), BVSlt(p.simd, p.vrf.Len),
			BVSle(z, v.nS), BVSle(v.nS, BVLitI(102, 64)), BVSle(z, v.nV), BVSle(v.nV, BVLitI(256, 64)),
			BVSle(z, p.soff), BVSlt(p.soff, lim), BVSle(BVAdd(p.soff, BVMul(BVLitI(4, 64), v.nS)), p.sst.Len),
			// every lane owns a 1024-byte row of the SIMD's file (cu.Builder: NewSimpleRegisterFile(.., 1024));
			// a wavefront's VGPRs occupy [VRegOffset, VRegOffset+4*nV) of each row
			Eq(p.bpl, BVLitI(1024, 64)), BVSle(z, p.voff), BVSle(BVAdd(p.voff, BVMul(BVLitI(4, 64), v.nV)), BVLitI(1024, 64)),
			BVSle(BVLitI(64*1024, 64), p.vst.Len),
			Neq(p.sst.Base, TNull), Neq(p.vst.Base, TNull), Neq(p.sst.Base, p.vst.Base),
			Eq(p.sst.Off, BVLitI(0, 64)), Eq(p.vst.Off, BVLitI(0, 64)), // whole allocations (NewSimpleRegisterFile), not sub-slices
			// the objects involved are pairwise distinct allocations
			Neq(RefRoot(p.sst.Base), RefRoot(wf)), Neq(RefRoot(p.vst.Base), RefRoot(wf)))
	}
	v.bases = func(st *State) [2]Term { p := get(st); return [2]Term{p.sst.Base, p.vst.Base} }
	v.others = func(st0, st1 *State, j Term) (Term, Term) {
		// byte j of the scalar / vector storage lies outside this wavefront's windows => unchanged
		p := get(st0)
		u8 := types.Typ[types.Uint8]
		inS := And(BVSle(p.soff, j), BVSlt(j, BVAdd(p.soff, BVMul(BVLitI(4, 64), v.nS))))
		sSame := Eq(c.load(st1, RefElem(p.sst.Base, BVAdd(p.sst.Off, j)), u8).T, c.load(st0, RefElem(p.sst.Base, BVAdd(p.sst.Off, j)), u8).T)
		sOK := Implies(And(BVSle(BVLitI(0, 64), j), BVSlt(j, p.sst.Len), Not(inS)), sSame)
		// j = voff + l*bpl + b with 0 <= b < 1024 for some lane l in 0..63
		row := BVURem(j, BVLitI(1024, 64))
		inV := And(BVUlt(BVUDiv(j, BVLitI(1024, 64)), BVLitI(64, 64)), BVSle(p.voff, row), BVSlt(row, BVAdd(p.voff, BVMul(BVLitI(4, 64), v.nV))))
		vSame := Eq(c.load(st1, RefElem(p.vst.Base, BVAdd(p.vst.Off, j)), u8).T, c.load(st0, RefElem(p.vst.Base, BVAdd(p.vst.Off, j)), u8).T)
		vOK := Implies(And(BVSle(BVLitI(0, 64), j), BVSlt(j, p.vst.Len), Not(inV)), vSame)
		return sOK, vOK
	}
	return v
}

var _ = ssa.NewProgram

// splitAnd splits a top-level conjunction (debug aid).
func splitAnd(t Term) []Term {
	if !strings.HasPrefix(t.S, "(and ") {
		return []Term{t}
	}
	body := t.S[5 : len(t.S)-1]
	var out []Term
	depth, start := 0, 0
	for i, ch := range body {
		switch ch {
		case '(':
			depth++
		case ')':
			depth--
		case ' ':
			if depth == 0 {
				out = append(out, raw(body[start:i], SBool))
				start = i + 1
			}
		}
	}
	out = append(out, raw(body[start:], SBool))
	return out
}

// implCases: the register-store proofs are split by the kind of operand.
func implCases(f *Frame, st *State, ct *Contract) []namedCase {
	if _, _, ok := parseImplements(ct); !ok {
		return nil
	}
	c := f.c
	var op Term
	for _, p := range f.fn.Params {
		if p.Name() == "operand" {
			op = f.env[p].T
		}
	}
	if op.S == "" {
		ad := f.accessDesc(st)
		if ad.rt.S == "" {
			return nil
		}
		isV := raw("(isa.isV "+ad.rt.S+")", SBool)
		isS := raw("(isa.isS "+ad.rt.S+")", SBool)
		return []namedCase{{"sreg", isS}, {"vreg", isV}, {"special", And(Not(isS), Not(isV))}}
	}
	d := c.operandDesc(st, op)
	isReg := Eq(d.ot, BVLitI(c.W.instsConst("RegOperand"), 64))
	isV := raw("(isa.isV "+d.rt.S+")", SBool)
	isS := raw("(isa.isS "+d.rt.S+")", SBool)
	return []namedCase{{"sreg", And(isReg, isS)}, {"vreg", And(isReg, isV)}, {"special", And(isReg, Not(isS), Not(isV))}, {"const", Not(isReg)}}
}

// implCaseFacts: derived literal facts of a case (proved, then assumed), so
// that width arithmetic in the code and in the contract becomes linear.
func implCaseFacts(f *Frame, st *State, ct *Contract, name string) {
	if _, _, ok := parseImplements(ct); !ok {
		return
	}
	if name != "sreg" && name != "vreg" {
		return
	}
	c := f.c
	ad := f.accessDesc(st)
	if ad.bs.S == "" || ad.bs.C != nil {
		return
	}
	fact := Eq(ad.bs, BVLitI(4, 64))
	c.Oblige("cases", "bytesize4", TTrue, fact, c.W.fset.Position(f.fn.Pos()), "general registers are 4 bytes wide (follows from the register-table assumption)")
	c.Assume(TTrue, fact, "general registers are 4 bytes wide")
}
