package main

import (
	"fmt"
	"go/token"
	"go/types"
	"hash/fnv"
	"os"
	"sort"
	"strings"
	"sync"

	"golang.org/x/tools/go/packages"
	"golang.org/x/tools/go/ssa"
	"golang.org/x/tools/go/ssa/ssautil"
)

type World struct {
	repo          string
	fset          *token.FileSet
	prog          *ssa.Program
	pkgs          map[string]*ssa.Package
	contracts     []*Contract
	byFn          map[*ssa.Function]*Contract
	specFns       map[string]*SpecFn
	typeTags      map[string]int
	tagTypes      map[int]types.Type
	models        map[string]Model
	modelWrites   map[string][]string
	preHooks      map[string]func(*Frame, *State)
	genericPre    []func(*Frame, *State, *Contract)
	genericPost   []func(*Frame, *State, *Contract, *Scope)
	caseHooks     []func(*Frame, *State, *Contract) []namedCase
	caseFactHooks []func(*Frame, *State, *Contract, string)
	knownCases    map[string][]string // function -> input classes of its known findings
	externOld     map[string]bool     // extern methods whose reference results existed before the call
	externHavoc   map[string]bool     // extern functions that may write any memory (treated as unknown code)
	externPure    map[string]bool     // extern methods whose result is a function of receiver and arguments (getters)
	externFresh   map[string]bool     // extern methods whose reference results are fresh allocations
	externFrames  map[string]string   // interface methods of components outside the verified code (assumed frame-only)
	knownLane     map[string][]string // function -> per-lane input classes (vector handlers)
	stats         struct{ unrolled, cut, feasQueries, pruned int }
	inlined       map[string]bool
	assumedSet    map[string]bool
	ctUses        map[string]bool
	globalIDs     map[*ssa.Global]int
	loopCache     map[*ssa.Function]*LoopInfo
	mu            sync.Mutex
	loadSecs      float64
	isaTable      map[string]*IsaEntry
	replayHooks   map[string]func(*World, checkOpts, *Obligation) *ReplayResult
}

func NewWorld(repo string) *World {
	w := &World{repo: repo, pkgs: map[string]*ssa.Package{}, byFn: map[*ssa.Function]*Contract{}, specFns: map[string]*SpecFn{},
		typeTags: map[string]int{}, tagTypes: map[int]types.Type{}, models: map[string]Model{}, modelWrites: map[string][]string{},
		preHooks: map[string]func(*Frame, *State){}, inlined: map[string]bool{}, assumedSet: map[string]bool{}, externFrames: map[string]string{}, externFresh: map[string]bool{}, externPure: map[string]bool{}, externOld: map[string]bool{}, externHavoc: map[string]bool{}, ctUses: map[string]bool{},
		globalIDs: map[*ssa.Global]int{}, loopCache: map[*ssa.Function]*LoopInfo{},
		replayHooks: map[string]func(*World, checkOpts, *Obligation) *ReplayResult{}}
	registerModels(w)
	registerISAModels(w)
	return w
}

func stableHash(s string, mod int) int {
	h := fnv.New32a()
	h.Write([]byte(s))
	return int(h.Sum32()%uint32(mod)) + 1
}

// tagOf: a stable (run-independent) identifier of a dynamic type.
func (w *World) tagOf(t types.Type) int {
	w.mu.Lock()
	defer w.mu.Unlock()
	key := types.TypeString(t, nil)
	if id, ok := w.typeTags[key]; ok {
		return id
	}
	id := stableHash(key, 1<<30)
	for {
		if _, used := w.tagTypes[id]; !used {
			break
		}
		id++
	}
	w.typeTags[key] = id
	w.tagTypes[id] = t
	return id
}

// tagOfName: a tag for an opaque dynamic type known only by name.
func (w *World) tagOfName(name string) int {
	w.mu.Lock()
	defer w.mu.Unlock()
	if id, ok := w.typeTags[name]; ok {
		return id
	}
	id := stableHash(name, 1<<30)
	for {
		if _, used := w.tagTypes[id]; !used {
			break
		}
		id++
	}
	w.typeTags[name] = id
	w.tagTypes[id] = types.Typ[types.Invalid]
	return id
}

func (w *World) tagType(id int) types.Type {
	w.mu.Lock()
	defer w.mu.Unlock()
	return w.tagTypes[id]
}

func (w *World) tagIDs() []int {
	w.mu.Lock()
	defer w.mu.Unlock()
	var ids []int
	for id := range w.tagTypes {
		ids = append(ids, id)
	}
	sort.Ints(ids)
	return ids
}

func (w *World) globalID(g *ssa.Global) int {
	w.mu.Lock()
	defer w.mu.Unlock()
	if id, ok := w.globalIDs[g]; ok {
		return id
	}
	used := map[int]bool{}
	for _, v := range w.globalIDs {
		used[v] = true
	}
	id := stableHash(g.String(), 900000)
	for used[id] {
		id++
	}
	w.globalIDs[g] = id
	return id
}

func (w *World) loopInfo(fn *ssa.Function) *LoopInfo {
	w.mu.Lock()
	defer w.mu.Unlock()
	if li, ok := w.loopCache[fn]; ok {
		return li
	}
	li := analyzeLoops(fn)
	w.loopCache[fn] = li
	return li
}

func (w *World) noteInlined(k string) { w.mu.Lock(); w.inlined[k] = true; w.mu.Unlock() }

// externKey resolves an extern declaration for a call made while verifying a function of package
// scope (package-local declaration first, then the global ones).
func (w *World) externKey(scope, name string) (string, bool) {
	// scope may be "pkg#function": a declaration limited to that function comes first
	if i := strings.Index(scope, "#"); i >= 0 {
		if _, ok := w.externFrames[scope+"|"+name]; ok {
			return scope + "|" + name, true
		}
		scope = scope[:i]
	}
	if _, ok := w.externFrames[scope+"|"+name]; ok {
		return scope + "|" + name, true
	}
	if _, ok := w.externFrames["|"+name]; ok {
		return "|" + name, true
	}
	return "", false
}

func (w *World) noteAssumed(k string) { w.mu.Lock(); w.assumedSet[k] = true; w.mu.Unlock() }
func (w *World) noteContractUse(c *Contract) {
	w.mu.Lock()
	w.ctUses[c.FullName()] = true
	w.mu.Unlock()
}
func (w *World) stat(f func()) { w.mu.Lock(); f(); w.mu.Unlock() }
func (w *World) contractFor(fn *ssa.Function) *Contract {
	if fn == nil {
		return nil
	}
	if o := fn.Origin(); o != nil {
		fn = o
	}
	return w.byFn[fn]
}

func (w *World) findType(name string) types.Type {
	// "pkgshort.Type" or "*pkgshort.Type"
	ptr := strings.HasPrefix(name, "*")
	name = strings.TrimPrefix(name, "*")
	i := strings.LastIndex(name, ".")
	if i < 0 {
		return nil
	}
	pk, tn := name[:i], name[i+1:]
	for path, p := range w.pkgs {
		if shortPkg(path) == pk || p.Pkg.Name() == pk {
			if m, ok := p.Members[tn]; ok {
				if t, ok := m.(*ssa.Type); ok {
					if ptr {
						return types.NewPointer(t.Type())
					}
					return t.Type()
				}
			}
		}
	}
	return nil
}

// Load type-checks and builds SSA for the packages that hold the contracts.
func (w *World) Load(pkgPaths []string, overlay map[string][]byte) error {
	cfg := &packages.Config{Mode: packages.LoadAllSyntax, Dir: w.repo, BuildFlags: []string{"-tags=verif"}, Overlay: overlay,
		Env: append(os.Environ(), "GOFLAGS=-mod=mod", "GOPROXY=off")}
	pkgs, err := packages.Load(cfg, pkgPaths...)
	if err != nil {
		return err
	}
	var errs []string
	packages.Visit(pkgs, nil, func(p *packages.Package) {
		for _, e := range p.Errors {
			errs = append(errs, e.Error())
		}
	})
	if len(errs) > 0 {
		return fmt.Errorf("package errors: %s", strings.Join(errs[:min(len(errs), 5)], "; "))
	}
	w.fset = pkgs[0].Fset
	prog, _ := ssautil.AllPackages(pkgs, ssa.InstantiateGenerics|ssa.GlobalDebug)
	prog.Build()
	w.prog = prog
	for _, p := range prog.AllPackages() {
		w.pkgs[p.Pkg.Path()] = p
	}
	return nil
}

// bind attaches contracts to SSA functions.
func (w *World) bind(cts []*Contract) (missing []*Contract) {
	for _, ct := range cts {
		p := w.pkgs[ct.PkgPath]
		if p == nil {
			missing = append(missing, ct)
			continue
		}
		fn := findFunc(p, ct.Key)
		if fn == nil {
			missing = append(missing, ct)
			continue
		}
		ct.Fn = fn
		w.byFn[fn] = ct
	}
	return
}

func findFunc(p *ssa.Package, key string) *ssa.Function {
	// plain function, method "(*T).m" / "(T).m" / "T.m", closure "f$1"
	base := key
	closure := ""
	if i := strings.Index(key, "$"); i >= 0 {
		base, closure = key[:i], key[i:]
	}
	var fn *ssa.Function
	if strings.HasPrefix(base, "(") {
		rp := strings.Index(base, ")")
		recv, meth := base[1:rp], strings.TrimPrefix(base[rp+1:], ".")
		ptr := strings.HasPrefix(recv, "*")
		tn := strings.TrimPrefix(recv, "*")
		m, ok := p.Members[tn]
		if !ok {
			return nil
		}
		t, ok := m.(*ssa.Type)
		if !ok {
			return nil
		}
		var rt types.Type = t.Type()
		if ptr {
			rt = types.NewPointer(rt)
		}
		fn = p.Prog.LookupMethod(rt, p.Pkg, meth)
	} else if m, ok := p.Members[base]; ok {
		fn, _ = m.(*ssa.Function)
	}
	if fn == nil || closure == "" {
		return fn
	}
	want := fn.Name() + closure
	var find func(f *ssa.Function) *ssa.Function
	find = func(f *ssa.Function) *ssa.Function {
		for _, a := range f.AnonFuncs {
			if a.Name() == want {
				return a
			}
			if r := find(a); r != nil {
				return r
			}
		}
		return nil
	}
	return find(fn)
}

// sortedKeys: map keys in a fixed order, so that the names created while walking a map (and with them the
// query text and its cache key) do not depend on Go's map iteration order.
func sortedKeys[V any](m map[string]V) []string {
	var out []string
	for k := range m {
		out = append(out, k)
	}
	sort.Strings(out)
	return out
}
