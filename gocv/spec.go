package main

// Evaluation of specification expressions against a symbolic state.

import (
	"fmt"
	"go/token"
	"go/types"
	"math/big"
	"os"
	"sort"
	"strings"

	"golang.org/x/tools/go/ssa"
)

var tokLSS = token.LSS

type Scope struct {
	c          *Ctx
	fr         *Frame
	st         *State
	old        *State
	vars       map[string]*Val
	at         *ssa.BasicBlock // program point for resolving local names
	loop       *Loop
	pkg        *ssa.Package
	depth      int
	freshBound int
	atInstr    ssa.Instruction // the site (within block `at`) a site obligation is attached to: later assignments are not visible
	anyLoop    bool            // names may denote the loop variables of any loop whose iteration is in progress
	skolem     int             // 0: quantifiers kept; 1: the formula is a proof goal; 2: the formula is an assumption
	neg        bool            // the current subformula has negative polarity in the top formula
}

// asGoal / asAssumption enable skolemisation: a universal quantifier in a positive position of a
// goal (an existential one of an assumption) is replaced by a fresh constant, so that heap reads in
// its body get ground instances of the frame and well-formedness axioms.
func (s *Scope) asGoal() *Scope       { n := *s; n.skolem, n.neg = 1, false; return &n }
func (s *Scope) asAssumption() *Scope { n := *s; n.skolem, n.neg = 2, false; return &n }
func (s *Scope) flip() *Scope         { n := *s; n.neg = !s.neg; return &n }
func (s *Scope) noSkolem() *Scope     { n := *s; n.skolem = 0; return &n }

func (s *Scope) with(st *State) *Scope {
	n := *s
	n.st = st
	return &n
}

func (s *Scope) child() *Scope {
	n := *s
	n.vars = map[string]*Val{}
	for k, v := range s.vars {
		n.vars[k] = v
	}
	return &n
}

type specErr struct{ msg string }

func (e specErr) Error() string { return e.msg }
func sfail(format string, a ...interface{}) specErr {
	return specErr{fmt.Sprintf(format, a...)}
}

func (s *Scope) evalBool(e *Expr) Term {
	v := s.eval(e)
	if v.K != KScalar || v.T.Sort != SBool {
		panic(sfail("expression %q is not boolean", e.Src))
	}
	return v.T
}

func untyped(t Term) *Val { return &Val{K: KScalar, T: t} }

// coerce makes an untyped literal match the sort of a typed operand.
func (s *Scope) coerce(a, b *Val) (*Val, *Val) {
	if a.K != KScalar || b.K != KScalar {
		return a, b
	}
	if a.T.Sort == b.T.Sort {
		if a.Ty == nil {
			a = &Val{K: KScalar, T: a.T, Ty: b.Ty}
		}
		if b.Ty == nil {
			b = &Val{K: KScalar, T: b.T, Ty: a.Ty}
		}
		return a, b
	}
	fix := func(lit, other *Val) *Val {
		if lit.T.C != nil && lit.T.Sort == SInt && isBV(other.T.Sort) {
			return &Val{K: KScalar, T: BVLit(lit.T.C, bvWidth(other.T.Sort)), Ty: other.Ty}
		}
		return lit
	}
	if a.Ty == nil {
		a = fix(a, b)
	}
	if b.Ty == nil {
		b = fix(b, a)
	}
	if a.T.Sort != b.T.Sort {
		// nil literal vs slice etc. handled by callers; widen narrower BV to wider
		if isBV(a.T.Sort) && isBV(b.T.Sort) {
			wa, wb := bvWidth(a.T.Sort), bvWidth(b.T.Sort)
			_, sa, _ := intInfoOrUnsigned(a.Ty)
			_, sb, _ := intInfoOrUnsigned(b.Ty)
			if wa < wb {
				a = &Val{K: KScalar, T: Resize(a.T, wb, sa), Ty: b.Ty}
			} else {
				b = &Val{K: KScalar, T: Resize(b.T, wa, sb), Ty: a.Ty}
			}
			return a, b
		}
		panic(sfail("operands have different sorts: %s vs %s", a.T.Sort, b.T.Sort))
	}
	return a, b
}

func intInfoOrUnsigned(t types.Type) (int, bool, bool) {
	if t == nil {
		return 0, false, false
	}
	return intInfo(t)
}

func uintType(w int) types.Type {
	switch w {
	case 8:
		return types.Typ[types.Uint8]
	case 16:
		return types.Typ[types.Uint16]
	case 32:
		return types.Typ[types.Uint32]
	case 64:
		return types.Typ[types.Uint64]
	}
	return nil
}

var convTypes = map[string]types.Type{
	"int": types.Typ[types.Int], "int8": types.Typ[types.Int8], "int16": types.Typ[types.Int16],
	"int32": types.Typ[types.Int32], "int64": types.Typ[types.Int64],
	"uint": types.Typ[types.Uint], "uint8": types.Typ[types.Uint8], "byte": types.Typ[types.Uint8],
	"uint16": types.Typ[types.Uint16], "uint32": types.Typ[types.Uint32], "uint64": types.Typ[types.Uint64],
}

func (s *Scope) eval(e *Expr) *Val {
	c := s.c
	switch e.Op {
	case "int":
		return untyped(IntLit(e.Lit))
	case "bool":
		return scalar(Bool(e.Name == "true"), types.Typ[types.Bool])
	case "str":
		return scalar(c.strLit(e.Name), types.Typ[types.String])
	case "nil":
		return &Val{K: KScalar, T: TNull}
	case "id":
		return s.lookup(e.Name)
	case "old":
		return s.with(s.old).eval(e.Args[0])
	case "un":
		if e.Name == "!" {
			a := s.flip().eval(e.Args[0])
			return scalar(Not(a.T), a.Ty)
		}
		a := s.eval(e.Args[0])
		switch e.Name {
		case "-":
			if a.T.Sort == SInt {
				if a.T.C != nil {
					return &Val{K: KScalar, T: IntLit(new(big.Int).Neg(a.T.C)), Ty: a.Ty}
				}
				return &Val{K: KScalar, T: ISub(IntLitI(0), a.T), Ty: a.Ty}
			}
			return &Val{K: KScalar, T: BVNeg(a.T), Ty: a.Ty}
		case "^":
			return &Val{K: KScalar, T: BVNot(a.T), Ty: a.Ty}
		}
	case "bin":
		return s.evalBin(e)
	case "forall", "exists":
		return s.evalQuant(e)
	case "sel":
		return s.evalSel(e)
	case "index":
		return s.evalIndex(e)
	case "slice":
		a := s.eval(e.Args[0])
		if a.K != KSlice {
			panic(sfail("slice expression on non-slice"))
		}
		lo := c.idxLit(0)
		if e.Args[1] != nil {
			lo = s.toIdx(s.eval(e.Args[1]))
		}
		hi := a.Len
		if e.Args[2] != nil {
			hi = s.toIdx(s.eval(e.Args[2]))
		}
		return &Val{K: KSlice, Ty: a.Ty, Base: a.Base, Off: c.idxAdd(a.Off, lo), Len: c.idxSub(hi, lo), Cap: c.idxSub(a.Cap, lo)}
	case "call":
		return s.evalCall(e)
	}
	panic(sfail("cannot evaluate %s expression", e.Op))
}

func (s *Scope) toIdx(v *Val) Term {
	if v.T.Sort == s.c.idxSort {
		return v.T
	}
	if v.T.Sort == SInt && v.T.C != nil {
		return s.c.idxLit(v.T.C.Int64())
	}
	if isBV(v.T.Sort) {
		_, signed, _ := intInfoOrUnsigned(v.Ty)
		return Resize(v.T, 64, signed)
	}
	panic(sfail("bad index sort %s", v.T.Sort))
}

func (s *Scope) evalBin(e *Expr) *Val {
	c := s.c
	boolT := types.Typ[types.Bool]
	switch e.Name {
	case "&&":
		return scalar(And(s.evalBool(e.Args[0]), s.evalBool(e.Args[1])), boolT)
	case "||":
		return scalar(Or(s.evalBool(e.Args[0]), s.evalBool(e.Args[1])), boolT)
	case "==>":
		return scalar(Implies(s.flip().evalBool(e.Args[0]), s.evalBool(e.Args[1])), boolT)
	case "<==>":
		return scalar(Eq(s.noSkolem().evalBool(e.Args[0]), s.noSkolem().evalBool(e.Args[1])), boolT)
	}
	if s.skolem != 0 {
		s = s.noSkolem() // operands of comparisons and arithmetic have no polarity
	}
	a, b := s.eval(e.Args[0]), s.eval(e.Args[1])
	// nil comparisons with slices/interfaces
	if e.Name == "==" || e.Name == "!=" {
		var t Term
		switch {
		case a.K == KSlice && b.K == KScalar:
			t = Eq(a.Base, TNull)
		case b.K == KSlice && a.K == KScalar:
			t = Eq(b.Base, TNull)
		case a.K == KIface && b.K == KScalar && b.T.S == TNull.S:
			t = Eq(a.Tag, IntLitI(0))
		case b.K == KIface && a.K == KScalar && a.T.S == TNull.S:
			t = Eq(b.Tag, IntLitI(0))
		case a.K == KIface && b.K == KScalar:
			t = Eq(a.Pay, b.T) // interface holding that pointer
		case b.K == KIface && a.K == KScalar:
			t = Eq(b.Pay, a.T)
		case a.K != KScalar || b.K != KScalar:
			t = c.valEqTerm(a, b)
		default:
			a, b = s.coerce(a, b)
			t = Eq(a.T, b.T)
		}
		if e.Name == "!=" {
			t = Not(t)
		}
		return scalar(t, boolT)
	}
	a, b = s.coerce(a, b)
	x, y := a.T, b.T
	ty := a.Ty
	if ty == nil {
		ty = b.Ty
	}
	if x.Sort == SInt {
		switch e.Name {
		case "+":
			return &Val{K: KScalar, T: IAdd(x, y), Ty: ty}
		case "-":
			return &Val{K: KScalar, T: ISub(x, y), Ty: ty}
		case "*":
			return &Val{K: KScalar, T: IMul(x, y), Ty: ty}
		case "/":
			return &Val{K: KScalar, T: sexp(SInt, "div", x, y), Ty: ty}
		case "%":
			return &Val{K: KScalar, T: sexp(SInt, "mod", x, y), Ty: ty}
		case "<":
			return scalar(ILt(x, y), boolT)
		case "<=":
			return scalar(ILe(x, y), boolT)
		case ">":
			return scalar(ILt(y, x), boolT)
		case ">=":
			return scalar(ILe(y, x), boolT)
		case "<<":
			if y.C != nil {
				return &Val{K: KScalar, T: IMul(x, IntLit(pow2(int(y.C.Int64())))), Ty: ty}
			}
		case ">>":
			if y.C != nil {
				return &Val{K: KScalar, T: sexp(SInt, "div", x, IntLit(pow2(int(y.C.Int64())))), Ty: ty}
			}
		}
		if ty != nil && c.intMode {
			// the same uninterpreted function the executable code gets in arith int mode
			if w, _, isInt := intInfo(ty); isInt {
				switch e.Name {
				case "|":
					return &Val{K: KScalar, T: c.UF(fmt.Sprintf("int.or.%d", w), SInt, x, y), Ty: ty}
				case "&":
					return &Val{K: KScalar, T: c.UF(fmt.Sprintf("int.and.%d", w), SInt, x, y), Ty: ty}
				case "^":
					return &Val{K: KScalar, T: c.UF(fmt.Sprintf("int.xor.%d", w), SInt, x, y), Ty: ty}
				}
			}
		}
		panic(sfail("operator %s not available on mathematical integers", e.Name))
	}
	if x.Sort == SStr && y.Sort == SStr && e.Name == "+" {
		return scalar(c.UF("str.concat", SStr, x, y), types.Typ[types.String])
	}
	if !isBV(x.Sort) {
		panic(sfail("operator %s on sort %s", e.Name, x.Sort))
	}
	_, signed, _ := intInfoOrUnsigned(ty)
	switch e.Name {
	case "*", "/", "%", "<<", ">>":
		x, y = c.known(x), c.known(y) // operands pinned by an enclosing case or precondition
	}
	switch e.Name {
	case "+":
		return &Val{K: KScalar, T: BVAdd(x, y), Ty: ty}
	case "-":
		return &Val{K: KScalar, T: BVSub(x, y), Ty: ty}
	case "*":
		return &Val{K: KScalar, T: BVMul(x, y), Ty: ty}
	case "/":
		if signed {
			return &Val{K: KScalar, T: BVSDiv(x, y), Ty: ty}
		}
		return &Val{K: KScalar, T: BVUDiv(x, y), Ty: ty}
	case "%":
		if signed {
			return &Val{K: KScalar, T: BVSRem(x, y), Ty: ty}
		}
		return &Val{K: KScalar, T: BVURem(x, y), Ty: ty}
	case "&":
		return &Val{K: KScalar, T: BVAnd(x, y), Ty: ty}
	case "|":
		return &Val{K: KScalar, T: BVOr(x, y), Ty: ty}
	case "^":
		return &Val{K: KScalar, T: BVXor(x, y), Ty: ty}
	case "&^":
		return &Val{K: KScalar, T: BVAnd(x, BVNot(y)), Ty: ty}
	case "<<":
		return &Val{K: KScalar, T: BVShl(x, y), Ty: ty}
	case ">>":
		if signed {
			return &Val{K: KScalar, T: BVAshr(x, y), Ty: ty}
		}
		return &Val{K: KScalar, T: BVLshr(x, y), Ty: ty}
	case "<":
		if signed {
			return scalar(BVSlt(x, y), boolT)
		}
		return scalar(BVUlt(x, y), boolT)
	case "<=":
		if signed {
			return scalar(BVSle(x, y), boolT)
		}
		return scalar(BVUle(x, y), boolT)
	case ">":
		if signed {
			return scalar(BVSlt(y, x), boolT)
		}
		return scalar(BVUlt(y, x), boolT)
	case ">=":
		if signed {
			return scalar(BVSle(y, x), boolT)
		}
		return scalar(BVUle(y, x), boolT)
	}
	panic(sfail("unknown operator %s", e.Name))
}

func (s *Scope) evalQuant(e *Expr) *Val {
	c := s.c
	c.usesQuant = true
	ty := convTypes[e.VarT]
	if e.VarT == "" {
		ty = types.Typ[types.Int]
	}
	if ty == nil && e.VarT != "ref" && s.pkg != nil {
		if m, ok := s.pkg.Members[e.VarT].(*ssa.Type); ok {
			if _, _, isInt := intInfo(m.Type()); isInt {
				ty = m.Type()
			}
		}
	}
	var sortName string
	var v *Val
	name := c.fresh("q." + e.Var)
	switch {
	case e.VarT == "ref":
		sortName = SRef
		v = &Val{K: KScalar, T: raw(name, SRef)}
	case ty != nil:
		w, _, _ := intInfo(ty)
		sortName = c.intSort(w)
		v = scalar(raw(name, sortName), ty)
	default:
		panic(sfail("unknown quantifier type %q", e.VarT))
	}
	n := s.child()
	n.vars[e.Var] = v
	universal := e.Op == "forall"
	wantSk := s.skolem != 0 && ((s.skolem == 1) == (universal != s.neg))
	if wantSk && c.inQuant > 0 && len(c.quantVars) == c.inQuant && ty != nil {
		// nested under kept quantifiers: a skolem function of the enclosing bound variables
		var argSorts, argNames []string
		for _, qv := range c.quantVars {
			argSorts = append(argSorts, qv[1])
			argNames = append(argNames, qv[0])
		}
		fn := sanitize(c.fresh("skf." + e.Var))
		c.decls = append(c.decls, fmt.Sprintf("(declare-fun %s (%s) %s)", fn, strings.Join(argSorts, " "), sortName))
		app := raw(fmt.Sprintf("(%s %s)", fn, strings.Join(argNames, " ")), sortName)
		n.vars[e.Var] = scalar(app, ty)
		body := n.evalBool(e.Args[0])
		trig := raw(fmt.Sprintf("(uf.%s %s)", trigName(sortName), app.S), SBool)
		c.UF(trigName(sortName), SBool, raw(name, sortName)) // make sure the predicate is declared
		if c.intMode {
			w, signed, _ := intInfo(ty)
			lo, hi := typeRange(w, signed)
			rng := And(ILe(IntLit(lo), app), ILe(app, IntLit(hi)))
			if universal {
				body = Implies(rng, body)
			} else {
				body = And(rng, body)
			}
		}
		if universal {
			return scalar(body, types.Typ[types.Bool])
		}
		return scalar(And(trig, body), types.Typ[types.Bool])
	}
	if wantSk && c.inQuant == 0 {
		// goal: positive forall / negative exists; assumption: positive exists / negative forall
		c.decls = append(c.decls, fmt.Sprintf("(declare-const %s %s)", name, sortName))
		c.addTrig(v.T)
		body := n.evalBool(e.Args[0])
		if c.intMode && ty != nil {
			w, signed, _ := intInfo(ty)
			lo, hi := typeRange(w, signed)
			rng := And(ILe(IntLit(lo), v.T), ILe(v.T, IntLit(hi)))
			if universal {
				body = Implies(rng, body)
			} else {
				body = And(rng, body)
			}
		}
		return scalar(body, types.Typ[types.Bool])
	}
	c.inQuant++
	c.quantLoads = append(c.quantLoads, nil)
	c.quantVars = append(c.quantVars, [2]string{name, sortName})
	body := n.evalBool(e.Args[0])
	c.quantVars = c.quantVars[:len(c.quantVars)-1]
	loads := c.quantLoads[len(c.quantLoads)-1]
	c.quantLoads = c.quantLoads[:len(c.quantLoads)-1]
	c.inQuant--
	// patterns: the trigger predicate, and the shortest heap reads that mention the bound variable
	var cands []Term
	seenPat := map[string]bool{}
	for _, l := range loads {
		if strings.Contains(l.S, name+" ") || strings.Contains(l.S, name+")") {
			if !seenPat[l.S] && !strings.Contains(l.S, "(ite ") && !c.mentionsDef(l.S) {
				seenPat[l.S] = true
				cands = append(cands, l)
			}
		} else if len(c.quantLoads) > 0 {
			// a read that does not depend on this variable may serve an enclosing quantifier
			c.quantLoads[len(c.quantLoads)-1] = append(c.quantLoads[len(c.quantLoads)-1], l)
		}
	}
	sort.Slice(cands, func(i, j int) bool { return len(cands[i].S) < len(cands[j].S) })
	if len(cands) > 2 {
		cands = cands[:2]
	}
	pats := " :pattern (" + c.UF(trigName(sortName), SBool, raw(name, sortName)).S + ")"
	for _, p := range cands {
		pats += " :pattern (" + p.S + ")"
	}
	// type range in int mode
	if c.intMode && ty != nil {
		w, signed, _ := intInfo(ty)
		lo, hi := typeRange(w, signed)
		rng := And(ILe(IntLit(lo), v.T), ILe(v.T, IntLit(hi)))
		if e.Op == "forall" {
			body = Implies(rng, body)
		} else {
			body = And(rng, body)
		}
	}
	return scalar(raw(fmt.Sprintf("(%s ((%s %s)) (! %s%s))", e.Op, name, sortName, body.S, pats), SBool), types.Typ[types.Bool])
}

func resultTypeOfSig(sig *types.Signature) types.Type {
	switch sig.Results().Len() {
	case 0:
		return nil
	case 1:
		return sig.Results().At(0).Type()
	}
	return sig.Results()
}

// mentionsDef: the term contains a define-fun name (which the solver expands, possibly into
// connectives that are not allowed in patterns).
func (c *Ctx) mentionsDef(t string) bool {
	for _, tok := range strings.FieldsFunc(t, func(r rune) bool { return r == '(' || r == ')' || r == ' ' }) {
		if c.defNames[tok] {
			return true
		}
	}
	return false
}

// fieldIndex finds a (possibly promoted) field; returns the index path.
func fieldPath(t types.Type, name string) ([]int, types.Type, bool) {
	st, ok := t.Underlying().(*types.Struct)
	if !ok {
		return nil, nil, false
	}
	for i := 0; i < st.NumFields(); i++ {
		if st.Field(i).Name() == name {
			return []int{i}, st.Field(i).Type(), true
		}
	}
	for i := 0; i < st.NumFields(); i++ {
		fld := st.Field(i)
		if !fld.Embedded() {
			continue
		}
		ft := fld.Type()
		if p, ok := ft.Underlying().(*types.Pointer); ok {
			_ = p
			continue // promoted through pointer: resolved by caller via explicit selection
		}
		if path, rt, ok := fieldPath(ft, name); ok {
			return append([]int{i}, path...), rt, true
		}
	}
	return nil, nil, false
}

func (s *Scope) evalSel(e *Expr) *Val {
	c := s.c
	a := s.eval(e.Args[0])
	if a.Ty == nil {
		panic(sfail("selection .%s on untyped value", e.Name))
	}
	// struct value
	if a.K == KTuple {
		path, _, ok := fieldPath(a.Ty, e.Name)
		if !ok {
			panic(sfail("no field %s in %s", e.Name, a.Ty))
		}
		v := a
		for _, i := range path {
			v = v.F[i]
		}
		return v
	}
	if a.K == KIface {
		// selection through an interface value holding a pointer: use the static
		// hint "x.(T)" is not available; refuse
		panic(sfail("field selection on interface value"))
	}
	if p, ok := a.Ty.Underlying().(*types.Pointer); ok {
		addr, ft := s.fieldAddr(a.T, p.Elem(), e.Name)
		return c.load(s.st, addr, ft)
	}
	panic(sfail("selection .%s on %s", e.Name, a.Ty))
}

// fieldAddr resolves x.name for x of struct type T at address base, following
// embedded structs (and embedded pointers, which are loaded from the state).
func (s *Scope) fieldAddr(base Term, t types.Type, name string) (Term, types.Type) {
	st, ok := t.Underlying().(*types.Struct)
	if !ok {
		panic(sfail("selection .%s on non-struct %s", name, t))
	}
	for i := 0; i < st.NumFields(); i++ {
		if st.Field(i).Name() == name {
			return RefSub(base, i), st.Field(i).Type()
		}
	}
	for i := 0; i < st.NumFields(); i++ {
		fld := st.Field(i)
		if !fld.Embedded() {
			continue
		}
		ft := fld.Type()
		if p, ok := ft.Underlying().(*types.Pointer); ok {
			if hasField(p.Elem(), name) {
				inner := s.c.load(s.st, RefSub(base, i), ft)
				return s.fieldAddr(inner.T, p.Elem(), name)
			}
			continue
		}
		if hasField(ft, name) {
			return s.fieldAddr(RefSub(base, i), ft, name)
		}
	}
	panic(sfail("no field %s in %s", name, t))
}

func hasField(t types.Type, name string) bool {
	st, ok := t.Underlying().(*types.Struct)
	if !ok {
		return false
	}
	for i := 0; i < st.NumFields(); i++ {
		if st.Field(i).Name() == name {
			return true
		}
		if st.Field(i).Embedded() {
			ft := st.Field(i).Type()
			if p, ok := ft.Underlying().(*types.Pointer); ok {
				ft = p.Elem()
			}
			if hasField(ft, name) {
				return true
			}
		}
	}
	return false
}

func (s *Scope) evalIndex(e *Expr) *Val {
	c := s.c
	a := s.eval(e.Args[0])
	i := s.eval(e.Args[1])
	switch a.K {
	case KSlice:
		idx := s.toIdx(i)
		c.addTrig(idx) // a ground index of a specification is an instantiation point for the quantified facts
		return c.load(s.st, RefElem(a.Base, c.idxAdd(a.Off, idx)), elemOf(a.Ty))
	case KTuple:
		idx := s.toIdx(i)
		if idx.C != nil {
			return a.F[idx.C.Int64()]
		}
		acc := a.F[len(a.F)-1]
		for k := len(a.F) - 2; k >= 0; k-- {
			acc = c.iteVal(Eq(idx, c.idxLit(int64(k))), a.F[k], acc)
		}
		return acc
	case KScalar:
		if mt, ok := a.Ty.Underlying().(*types.Map); ok {
			_, k := s.coerceTo(i, mt.Key())
			pres, vals, _, _, _, _ := c.mapMems(s.st, mt)
			c.groundFrames(pres, a.T)
			for _, va := range vals {
				c.groundFrames(va, a.T)
			}
			has := Select(Select(pres, a.T), k.T)
			var ts []Term
			for _, va := range vals {
				x := Select(Select(va, a.T), k.T)
				c.mapValueAllocated(va, a.T, k.T)
				ts = append(ts, x)
			}
			val, _ := c.unflatten(mt.Elem(), ts)
			return c.iteVal(has, val, c.zero(mt.Elem()))
		}
		if p, ok := a.Ty.Underlying().(*types.Pointer); ok {
			if arr, ok := p.Elem().Underlying().(*types.Array); ok {
				return c.load(s.st, RefElem(a.T, s.toIdx(i)), arr.Elem())
			}
		}
	}
	panic(sfail("indexing of %v", a.Ty))
}

func (s *Scope) coerceTo(v *Val, t types.Type) (bool, *Val) {
	want := s.c.scalarSort(t)
	if v.T.Sort == want {
		return true, &Val{K: KScalar, T: v.T, Ty: t}
	}
	if v.T.Sort == SInt && v.T.C != nil && isBV(want) {
		return true, &Val{K: KScalar, T: BVLit(v.T.C, bvWidth(want)), Ty: t}
	}
	if isBV(v.T.Sort) && isBV(want) {
		_, signed, _ := intInfoOrUnsigned(v.Ty)
		return true, &Val{K: KScalar, T: Resize(v.T, bvWidth(want), signed), Ty: t}
	}
	panic(sfail("cannot convert %s to %s", v.T.Sort, t))
}

func (s *Scope) evalCall(e *Expr) *Val {
	c := s.c
	intT := types.Typ[types.Int]
	boolT := types.Typ[types.Bool]
	argv := func(i int) *Val { return s.eval(e.Args[i]) }
	switch e.Name {
	case "len":
		a := argv(0)
		switch a.K {
		case KSlice:
			return scalar(a.Len, intT)
		case KTuple:
			return scalar(c.idxLit(int64(len(a.F))), intT)
		}
		panic(sfail("len of non-slice"))
	case "cap":
		return scalar(argv(0).Cap, intT)
	case "ite":
		cnd := s.evalBool(e.Args[0])
		a, b := s.coerce(argv(1), argv(2))
		return c.iteVal(cnd, a, b)
	case "has":
		m := argv(0)
		mt, ok := m.Ty.Underlying().(*types.Map)
		if !ok {
			panic(sfail("has() on non-map"))
		}
		_, k := s.coerceTo(argv(1), mt.Key())
		pres, _, _, _, _, _ := c.mapMems(s.st, mt)
		return scalar(Select(Select(pres, m.T), k.T), boolT)
	case "bits":
		// bits(x, hi, lo)
		x := argv(0)
		hi, lo := int(e.Args[1].Lit.Int64()), int(e.Args[2].Lit.Int64())
		if c.intMode {
			t := sexp(SInt, "mod", sexp(SInt, "div", x.T, IntLit(pow2(lo))), IntLit(pow2(hi-lo+1)))
			return &Val{K: KScalar, T: t, Ty: x.Ty}
		}
		return &Val{K: KScalar, T: Extract(hi, lo, x.T), Ty: uintType(hi - lo + 1)}
	case "zext", "sext", "trunc":
		x := argv(0)
		w := int(e.Args[1].Lit.Int64())
		if c.intMode {
			return x
		}
		t := Resize(x.T, w, e.Name == "sext")
		return &Val{K: KScalar, T: t, Ty: uintType(w)}
	case "signed":
		// reinterpret a bit-vector as signed of the same width
		x := argv(0)
		w := bvWidth(x.T.Sort)
		return &Val{K: KScalar, T: x.T, Ty: map[int]types.Type{8: types.Typ[types.Int8], 16: types.Typ[types.Int16], 32: types.Typ[types.Int32], 64: types.Typ[types.Int64]}[w]}
	case "bitrev":
		x := argv(0)
		w := bvWidth(x.T.Sort)
		acc := Extract(0, 0, x.T)
		for i := 1; i < w; i++ {
			acc = Concat(acc, Extract(i, i, x.T))
		}
		return &Val{K: KScalar, T: c.Def("bitrev", acc), Ty: uintType(w)}
	case "concat":
		a, b := argv(0), argv(1)
		t := Concat(a.T, b.T)
		return &Val{K: KScalar, T: t, Ty: uintType(bvWidth(t.Sort))}
	case "le32", "le64", "le16":
		// le32(buf, off): little-endian word of a byte slice
		a := argv(0)
		off := s.toIdx(argv(1))
		n := map[string]int64{"le16": 2, "le32": 4, "le64": 8}[e.Name]
		var acc Term
		for i := int64(0); i < n; i++ {
			b := c.load(s.st, RefElem(a.Base, c.idxAdd(a.Off, c.idxAdd(off, c.idxLit(i)))), types.Typ[types.Uint8]).T
			if i == 0 {
				acc = b
			} else {
				acc = Concat(b, acc)
			}
		}
		return &Val{K: KScalar, T: acc, Ty: uintType(int(n * 8))}
	case "fbits64":
		// fbits64(0x3FE0...): the float64 with these bits
		x := argv(0)
		return scalar(BVLit(x.T.C, 64), types.Typ[types.Float64])
	case "fbits32":
		x := argv(0)
		return scalar(BVLit(x.T.C, 32), types.Typ[types.Float32])
	case "fresh":
		// fresh(p): p was allocated during the call
		a := argv(0)
		r := a.T
		if a.K == KSlice {
			r = a.Base
		}
		bound := int64(birthBase)
		if s.freshBound > 0 {
			bound = int64(s.freshBound) // at a call site: allocated by this very call
		}
		t := ILe(IntLitI(bound), RefRoot(r))
		if s.freshBound > 0 {
			t = And(t, ILt(RefRoot(r), IntLitI(int64(s.freshBound+256))))
		}
		return scalar(t, boolT)
	case "typeis":
		// typeis(x, "pkg.T") : dynamic type of interface value
		a := argv(0)
		want := e.Args[1].Name
		if s.pkg != nil {
			if m, ok := s.pkg.Members[strings.TrimPrefix(want, "*")].(*ssa.Type); ok {
				var tt types.Type = m.Type()
				if strings.HasPrefix(want, "*") {
					tt = types.NewPointer(tt)
				}
				return scalar(Eq(a.Tag, c.typeTag(tt)), boolT)
			}
		}
		for _, id := range c.W.tagIDs() {
			t := c.W.tagType(id)
			if shortTypeName(t) == want || strings.TrimPrefix(shortTypeName(t), "*") == want {
				return scalar(Eq(a.Tag, IntLitI(int64(id))), boolT)
			}
		}
		tt := c.W.findType(want)
		if tt == nil {
			panic(sfail("unknown type %s", want))
		}
		return scalar(Eq(a.Tag, c.typeTag(tt)), boolT)
	case "loopfree":
		// loopfree(e): the value of e does not depend on what earlier iterations of the enclosing loops left
		// in loop-carried variables (other than the induction variable)
		if s.fr == nil {
			panic(sfail("loopfree: only at a site inside the function"))
		}
		v := argv(0)
		var parts []Term
		for _, t := range valTerms(v) {
			parts = append(parts, s.fr.loopFree(t))
		}
		return scalar(And(parts...), boolT)
	case "isaexec":
		// isaexec(): the wavefront's EXEC mask (abstract architectural state behind InstEmuState) at this point
		return scalar(c.ghost(s.st, "G_exec"), types.Typ[types.Uint64])
	case "lastarg":
		// lastarg("Method", k): argument k of the latest call of an extern interface method on this path
		// (unconstrained where no such call precedes)
		k := argv(1)
		if k.T.C == nil {
			panic(sfail("lastarg: constant argument number expected"))
		}
		v := c.lastArg(s.st, e.Args[0].Name, int(k.T.C.Int64()))
		if v == nil {
			panic(sfail("lastarg: the function makes no call of extern method %s with argument %d", e.Args[0].Name, k.T.C.Int64()))
		}
		return v
	case "atloop":
		// atloop(k, e): the value of e in the state in which loop k was entered
		k := argv(0)
		if k.T.C == nil || s.fr == nil {
			panic(sfail("atloop: constant loop number expected"))
		}
		pre, ok := s.fr.topFrame().loopEntry[int(k.T.C.Int64())]
		if !ok {
			panic(sfail("atloop: loop %d has not been entered (or is not cut at an invariant)", k.T.C.Int64()))
		}
		return s.with(pre).eval(e.Args[1])
	case "samearray":
		// samearray(a, b): the same window origin of the same backing array, same capacity
		a, b := argv(0), argv(1)
		if a.K != KSlice || b.K != KSlice {
			panic(sfail("samearray: slices expected"))
		}
		return scalar(And(Eq(a.Base, b.Base), Eq(a.Off, b.Off), Eq(a.Cap, b.Cap)), boolT)
	case "separate":
		// separate(a, b): the two references (pointers or slices) belong to different allocations
		root := func(v *Val) Term {
			switch v.K {
			case KSlice:
				return RefRoot(v.Base)
			case KScalar:
				if v.T.Sort == SRef {
					return RefRoot(v.T)
				}
			}
			panic(sfail("separate: pointers or slices expected"))
		}
		return scalar(Neq(root(argv(0)), root(argv(1))), boolT)
	case "disjoint":
		// disjoint(a, b): two slices backed by different allocations
		a, b := argv(0), argv(1)
		if a.K != KSlice || b.K != KSlice {
			panic(sfail("disjoint: slices expected"))
		}
		return scalar(Or(Neq(a.Base, b.Base), Eq(a.Base, TNull)), boolT)
	case "dyn":
		// dyn(x, T): the *T held by interface value x (meaningful where typeis(x, T) holds)
		a := argv(0)
		if a.K != KIface {
			panic(sfail("dyn: not an interface value"))
		}
		want := strings.TrimPrefix(e.Args[1].Name, "*")
		var tt types.Type
		if s.pkg != nil {
			if m, ok := s.pkg.Members[want].(*ssa.Type); ok {
				tt = m.Type()
			}
		}
		if tt == nil {
			tt = c.W.findType(want)
		}
		if tt == nil {
			panic(sfail("unknown type %s", want))
		}
		if p, ok := tt.(*types.Pointer); ok {
			tt = p.Elem()
		}
		return scalar(a.Pay, types.NewPointer(tt))
	case "deref":
		a := argv(0)
		return c.load(s.st, a.T, deref(a.Ty))
	case "ghost":
		// ghost("name"): current value of a ghost variable
		name := e.Args[0].Name
		if t, ok := s.st.mem[name]; ok {
			return &Val{K: KScalar, T: t}
		}
		if t, ok := c.memInit[name]; ok {
			return &Val{K: KScalar, T: t}
		}
		panic(sfail("unknown ghost %s", name))
	}
	if t, ok := convTypes[e.Name]; ok && len(e.Args) == 1 {
		x := argv(0)
		if x.T.Sort == SInt && x.T.C != nil {
			w, _, _ := intInfo(t)
			return scalar(c.intLit(x.T.C, w), t)
		}
		if c.intMode {
			return scalar(x.T, t)
		}
		w, _, _ := intInfo(t)
		_, signed, _ := intInfoOrUnsigned(x.Ty)
		return scalar(Resize(x.T, w, signed), t)
	}
	// conversion to a named integer type of the package under contract, e.g. RegType(x)
	if s.pkg != nil && len(e.Args) == 1 {
		if m, ok := s.pkg.Members[e.Name].(*ssa.Type); ok {
			if w, _, isInt := intInfo(m.Type()); isInt {
				x := argv(0)
				if x.T.Sort == SInt && x.T.C != nil {
					return scalar(c.intLit(x.T.C, w), m.Type())
				}
				if c.intMode {
					return scalar(x.T, m.Type())
				}
				_, signed, _ := intInfoOrUnsigned(x.Ty)
				return scalar(Resize(x.T, w, signed), m.Type())
			}
		}
	}
	// user spec function (macro expansion)
	if sf, ok := c.W.specFns[e.Name]; ok {
		if s.depth > 40 {
			panic(sfail("spec function recursion too deep in %s", e.Name))
		}
		if len(sf.Params) != len(e.Args) {
			panic(sfail("spec fn %s expects %d arguments", e.Name, len(sf.Params)))
		}
		n := *s
		n.vars = map[string]*Val{}
		n.depth = s.depth + 1
		for i, p := range sf.Params {
			v := argv(i)
			if t, ok := convTypes[sf.PTypes[i]]; ok && v.K == KScalar {
				_, v = s.coerceTo(v, t)
			}
			n.vars[p] = v
		}
		// spec functions may also see the caller's heap and ghosts, not its locals
		return n.eval(sf.Body)
	}
	// package-level pure extern function, written by its bare name: f(x, ...)
	if len(e.Args) >= 1 {
		scope := ""
		if s.fr != nil {
			scope = s.fr.scopePkg()
		}
		for path, p := range c.W.pkgs {
			fn := p.Func(e.Name)
			if fn == nil || fn.Signature.Recv() != nil {
				continue
			}
			key := shortPkg(path) + "." + e.Name
			ek, ok := c.W.externKey(scope, key)
			if !ok || !c.W.externPure[ek] || fn.Signature.Params().Len() != len(e.Args) {
				continue
			}
			var args []*Val
			for i := range e.Args {
				a := argv(i)
				if a.K == KScalar {
					_, a = s.coerceTo(a, fn.Signature.Params().At(i).Type())
				}
				args = append(args, a)
			}
			if r := c.pureExtern(key, args[0], args[1:], resultTypeOfSig(fn.Signature)); r != nil {
				return r
			}
		}
	}
	// pure accessor of an external interface, written f(x) or x.f() -> call with receiver first
	if len(e.Args) >= 1 {
		if recv := s.eval(e.Args[0]); recv != nil && recv.Ty != nil {
			key := shortTypeName(recv.Ty) + "." + e.Name
			scope := ""
			if s.fr != nil {
				scope = s.fr.scopePkg()
			}
			pureKey := func(k string) bool {
				ek, ok := c.W.externKey(scope, k)
				return ok && c.W.externPure[ek]
			}
			if !pureKey(key) {
				// static method of a named (pointer) type: "pkg.(*T).Name" / "pkg.(T).Name"
				if p, ok := recv.Ty.(*types.Pointer); ok {
					if nt, ok := p.Elem().(*types.Named); ok && nt.Obj().Pkg() != nil {
						key = shortPkg(nt.Obj().Pkg().Path()) + ".(*" + nt.Obj().Name() + ")." + e.Name
					}
				} else if nt, ok := recv.Ty.(*types.Named); ok && nt.Obj().Pkg() != nil {
					key = shortPkg(nt.Obj().Pkg().Path()) + ".(" + nt.Obj().Name() + ")." + e.Name
				}
			}
			if pureKey(key) {
				var rest []*Val
				for i := 1; i < len(e.Args); i++ {
					rest = append(rest, argv(i))
				}
				var rt types.Type
				if it, ok := recv.Ty.Underlying().(*types.Interface); ok {
					for i := 0; i < it.NumMethods(); i++ {
						if it.Method(i).Name() == e.Name {
							rt = resultTypeOfSig(it.Method(i).Type().(*types.Signature))
						}
					}
				}
				if rt == nil && s.pkg != nil {
					if fn := c.W.prog.LookupMethod(recv.Ty, s.pkg.Pkg, e.Name); fn != nil {
						rt = resultTypeOfSig(fn.Signature)
					}
				}
				if r := c.pureExtern(key, recv, rest, rt); r != nil {
					return r
				}
			}
		}
	}
	// pure Go function or method of the package under contract
	if os.Getenv("GOCV_DEBUG") != "" {
		fmt.Fprintf(os.Stderr, "spec call %q not a macro (have %d spec fns)\n", e.Name, len(c.W.specFns))
	}
	if fn := s.resolveGoFunc(e); fn != nil {
		var args []*Val
		for i := range e.Args {
			args = append(args, argv(i))
		}
		// coerce literals to parameter types
		for i, p := range fn.Params {
			if i < len(args) && args[i].K == KScalar && args[i].Ty == nil {
				_, args[i] = s.coerceTo(args[i], p.Type())
			}
		}
		tmp := s.st.clone()
		nf := &Frame{c: c, fn: fn, env: map[ssa.Value]*Val{}, caller: s.fr, depth: 1}
		if s.fr != nil {
			nf.depth = s.fr.depth + 1
		}
		for i, p := range fn.Params {
			nf.env[p] = args[i]
		}
		_, res := nf.runBody(tmp)
		if len(res) == 1 {
			return res[0]
		}
		return &Val{K: KTuple, F: res, Ty: fn.Signature.Results()}
	}
	panic(sfail("unknown function %s in specification", e.Name))
}

func (s *Scope) resolveGoFunc(e *Expr) *ssa.Function {
	if s.pkg == nil {
		return nil
	}
	if m, ok := s.pkg.Members[e.Name]; ok {
		if fn, ok := m.(*ssa.Function); ok {
			return fn
		}
	}
	// method on first argument
	if len(e.Args) > 0 {
		recv := s.eval(e.Args[0])
		// ssa.LookupMethod panics on a type without such a method (e.g. an interface): treated as "no such function"
		lookup := func(t types.Type) (fn *ssa.Function) {
			defer func() {
				if recover() != nil {
					fn = nil
				}
			}()
			return s.c.W.prog.LookupMethod(t, s.pkg.Pkg, e.Name)
		}
		if recv.Ty != nil {
			if _, isIface := recv.Ty.Underlying().(*types.Interface); isIface {
				return nil
			}
			if fn := lookup(recv.Ty); fn != nil {
				return fn
			}
			if _, isPtr := recv.Ty.Underlying().(*types.Pointer); !isPtr {
				if fn := lookup(types.NewPointer(recv.Ty)); fn != nil {
					return nil // would need the address; unsupported
				}
			}
		}
	}
	return nil
}

func (s *Scope) lookup(name string) *Val {
	if v, ok := s.vars[name]; ok {
		return v
	}
	if s.fr != nil {
		if s.anyLoop && s.atInstr != nil {
			if v := s.fr.resolveNameBefore(name, s.at, s.atInstr, s.st); v != nil {
				return v
			}
		}
		if s.anyLoop && s.fr.li != nil {
			var found *Val
			n := 0
			for _, L := range s.fr.li.loops {
				for _, in := range L.Header.Instrs {
					p, ok := in.(*ssa.Phi)
					if !ok {
						break
					}
					if p.Comment == name {
						if v, ok := s.fr.env[p]; ok {
							found = v
							n++
						}
					}
				}
			}
			if n == 1 {
				return found
			}
		}
		if v := s.fr.resolveName(name, s.at, s.loop, s.st); v != nil {
			return v
		}
	}
	// package-level constants and variables
	if s.pkg != nil {
		if m, ok := s.pkg.Members[name]; ok {
			switch x := m.(type) {
			case *ssa.NamedConst:
				return s.c.constVal(x.Value)
			case *ssa.Global:
				return s.c.load(s.st, s.c.globalRef(x), deref(x.Type()))
			}
		}
	}
	// qualified constant pkg.Name is parsed as sel; handled in evalSel? no: ids only
	panic(sfail("unknown name %q", name))
}

// resolveNameBefore: the value a source variable has just before instruction `site` of block `at`:
// the last DebugRef of the variable that precedes the site in its block, else the last one in the
// nearest dominating block; a phi of a dominating block that carries the variable counts as its
// definition there. nil if none is found.
func (f *Frame) resolveNameBefore(name string, at *ssa.BasicBlock, site ssa.Instruction, st *State) *Val {
	for b := at; b != nil; b = b.Idom() {
		var found *ssa.DebugRef
		for _, in := range b.Instrs {
			if b == at && in == site {
				break
			}
			if d, ok := in.(*ssa.DebugRef); ok {
				if obj := d.Object(); obj != nil && obj.Name() == name {
					found = d
				}
			}
		}
		if found != nil {
			v, ok := f.env[found.X]
			if !ok {
				if k, isC := found.X.(*ssa.Const); isC {
					v = f.c.constVal(k)
				} else {
					return nil
				}
			}
			if found.IsAddr {
				return f.c.load(st, v.T, deref(found.X.Type()))
			}
			return v
		}
		for _, in := range b.Instrs {
			p, ok := in.(*ssa.Phi)
			if !ok {
				break
			}
			if p.Comment == name {
				if v, ok := f.env[p]; ok {
					return v
				}
			}
		}
	}
	return nil
}

// resolveName finds the SSA value of a source variable at a program point.
func (f *Frame) resolveName(name string, at *ssa.BasicBlock, loop *Loop, st *State) *Val {
	if loop != nil {
		for _, in := range loop.Header.Instrs {
			p, ok := in.(*ssa.Phi)
			if !ok {
				break
			}
			if p.Comment == name {
				if v, ok := f.env[p]; ok {
					return v
				}
			}
		}
	}
	for _, p := range f.fn.Params {
		if p.Name() == name {
			return f.env[p]
		}
	}
	for _, p := range f.fn.FreeVars {
		if p.Name() == name {
			if v, ok := f.env[p]; ok {
				// free variables are addresses of captured variables
				if _, isPtr := p.Type().Underlying().(*types.Pointer); isPtr {
					return f.c.load(st, v.T, deref(p.Type()))
				}
				return v
			}
		}
	}
	if at == nil {
		return nil
	}
	// DebugRefs in dominating blocks (nearest dominator first, last ref wins)
	for b := at; b != nil; b = b.Idom() {
		var found *ssa.DebugRef
		for _, in := range b.Instrs {
			if d, ok := in.(*ssa.DebugRef); ok {
				if obj := d.Object(); obj != nil && obj.Name() == name {
					if b == at && loop == nil {
						// any ref in the block itself is acceptable
					}
					found = d
				}
			}
		}
		if found == nil {
			// a phi of this (dominating) block that carries the variable is its value from here on
			for _, in := range b.Instrs {
				p, ok := in.(*ssa.Phi)
				if !ok {
					break
				}
				if p.Comment == name {
					if v, ok := f.env[p]; ok {
						return v
					}
				}
			}
		}
		if found != nil {
			if b == at && loop != nil && b == loop.Header {
				// refs inside the header come after the phis: still fine
			}
			v, ok := f.env[found.X]
			if !ok {
				if k, isC := found.X.(*ssa.Const); isC {
					v = f.c.constVal(k)
				} else {
					continue
				}
			}
			if found.IsAddr {
				return f.c.load(st, v.T, deref(found.X.Type()))
			}
			return v
		}
	}
	return nil
}
