package main

import (
	"go/constant"
	"go/token"
	"sort"

	"golang.org/x/tools/go/ssa"
)

type Loop struct {
	Header  *ssa.BasicBlock
	Blocks  map[*ssa.BasicBlock]bool
	Back    []*ssa.BasicBlock // sources of back edges
	Ordinal int               // position of the header in source order among loops
	Parent  *Loop
}

type LoopInfo struct {
	byHeader map[*ssa.BasicBlock]*Loop
	rpo      []*ssa.BasicBlock
	rpoIdx   map[*ssa.BasicBlock]int
	loops    []*Loop
}

func analyzeLoops(fn *ssa.Function) *LoopInfo {
	li := &LoopInfo{byHeader: map[*ssa.BasicBlock]*Loop{}, rpoIdx: map[*ssa.BasicBlock]int{}}
	if len(fn.Blocks) == 0 {
		return li
	}
	// reverse postorder
	seen := map[*ssa.BasicBlock]bool{}
	var post []*ssa.BasicBlock
	var dfs func(b *ssa.BasicBlock)
	dfs = func(b *ssa.BasicBlock) {
		seen[b] = true
		for _, s := range b.Succs {
			if !seen[s] {
				dfs(s)
			}
		}
		post = append(post, b)
	}
	dfs(fn.Blocks[0])
	for i := len(post) - 1; i >= 0; i-- {
		li.rpoIdx[post[i]] = len(li.rpo)
		li.rpo = append(li.rpo, post[i])
	}
	// back edges: u -> h with h dominating u
	for _, u := range li.rpo {
		for _, h := range u.Succs {
			if h.Dominates(u) {
				L := li.byHeader[h]
				if L == nil {
					L = &Loop{Header: h, Blocks: map[*ssa.BasicBlock]bool{h: true}}
					li.byHeader[h] = L
					li.loops = append(li.loops, L)
				}
				L.Back = append(L.Back, u)
				// natural loop body
				stack := []*ssa.BasicBlock{u}
				for len(stack) > 0 {
					x := stack[len(stack)-1]
					stack = stack[:len(stack)-1]
					if L.Blocks[x] {
						continue
					}
					L.Blocks[x] = true
					for _, p := range x.Preds {
						if seen[p] {
							stack = append(stack, p)
						}
					}
				}
			} else if li.rpoIdx[h] <= li.rpoIdx[u] && seen[h] {
				// retreating edge that is not a back edge: irreducible
				panic(unsupported("irreducible control flow in %s", fn.Name()))
			}
		}
	}
	// ordinals by source position of header (fallback: block index)
	sort.Slice(li.loops, func(i, j int) bool {
		pi, pj := loopPos(li.loops[i]), loopPos(li.loops[j])
		if pi != pj {
			return pi < pj
		}
		return li.loops[i].Header.Index < li.loops[j].Header.Index
	})
	for i, L := range li.loops {
		L.Ordinal = i
	}
	// nesting
	for _, L := range li.loops {
		for _, M := range li.loops {
			if M != L && M.Blocks[L.Header] && len(M.Blocks) > len(L.Blocks) {
				if L.Parent == nil || len(M.Blocks) < len(L.Parent.Blocks) {
					L.Parent = M
				}
			}
		}
	}
	return li
}

func loopPos(L *Loop) token.Pos {
	best := token.NoPos
	for b := range L.Blocks {
		for _, in := range b.Instrs {
			switch in.(type) {
			case *ssa.Phi, *ssa.DebugRef:
				continue // positioned at the variable's declaration, possibly before the loop
			}
			if p := in.Pos(); p.IsValid() && (best == token.NoPos || p < best) {
				best = p
			}
		}
	}
	return best
}

// constTrip recognises `for i := c0; i < c1; i += c2` style loops whose trip
// count is a small constant, so that they can be unrolled completely.
func constTrip(L *Loop) (int, bool) {
	for b := range L.Blocks {
		if len(b.Instrs) == 0 {
			continue
		}
		ifi, ok := b.Instrs[len(b.Instrs)-1].(*ssa.If)
		if !ok {
			continue
		}
		// must be an exiting block
		exits := !L.Blocks[b.Succs[0]] || !L.Blocks[b.Succs[1]]
		if !exits {
			continue
		}
		cmp, ok := ifi.Cond.(*ssa.BinOp)
		if !ok {
			continue
		}
		lim, ok := cmp.Y.(*ssa.Const)
		if !ok || lim.Value == nil || lim.Value.Kind() != constant.Int {
			continue
		}
		limV, ok2 := constant.Int64Val(lim.Value)
		if !ok2 {
			continue
		}
		// X is either the header phi or phi+step
		var phi *ssa.Phi
		addBefore := int64(0)
		switch x := cmp.X.(type) {
		case *ssa.Phi:
			phi = x
		case *ssa.BinOp:
			if p, ok := x.X.(*ssa.Phi); ok && x.Op == token.ADD {
				if k, ok := x.Y.(*ssa.Const); ok && k.Value != nil {
					phi = p
					addBefore, _ = constant.Int64Val(k.Value)
				}
			}
		}
		if phi == nil || phi.Block() != L.Header {
			continue
		}
		var init, step int64
		okInit, okStep := false, false
		for i, e := range phi.Edges {
			pred := L.Header.Preds[i]
			if L.Blocks[pred] {
				if bo, ok := e.(*ssa.BinOp); ok && bo.Op == token.ADD && bo.X == phi {
					if k, ok := bo.Y.(*ssa.Const); ok && k.Value != nil {
						step, okStep = constant.Int64Val(k.Value)
					}
				}
			} else if k, ok := e.(*ssa.Const); ok && k.Value != nil {
				init, okInit = constant.Int64Val(k.Value)
			}
		}
		if !okInit || !okStep || step <= 0 {
			continue
		}
		var n int64
		switch cmp.Op {
		case token.LSS:
			n = (limV - (init + addBefore) + step - 1) / step
		case token.LEQ:
			n = (limV-(init+addBefore))/step + 1
		case token.NEQ:
			if (limV-(init+addBefore))%step != 0 {
				continue
			}
			n = (limV - (init + addBefore)) / step
		default:
			continue
		}
		if n < 0 {
			n = 0
		}
		if n <= 130 {
			return int(n) + 1, true
		}
	}
	return 0, false
}
