package main

import (
	"fmt"
	"go/token"
	"go/types"
	"math/big"
	"strings"

	"golang.org/x/tools/go/ssa"
)

func (f *Frame) execValue(x ssa.Value, in ssa.Instruction, st *State) *Val {
	c := f.c
	switch v := x.(type) {
	case *ssa.Alloc:
		r := c.newObj()
		// a fresh object is zero: stored explicitly when small (keeps queries
		// quantifier-free), otherwise left to the quantified heap axiom
		et := deref(v.Type())
		if leafCount(et) <= 96 {
			c.store(st, r, et, c.zero(et))
		} else {
			c.needQuantHeap = true
		}
		return scalar(r, v.Type())
	case *ssa.BinOp:
		return f.binop(st, in, v.Op, f.get(v.X), f.get(v.Y), v.Type())
	case *ssa.UnOp:
		return f.unop(st, in, v)
	case *ssa.Call:
		return f.call(st, v)
	case *ssa.ChangeType:
		a := f.get(v.X)
		return retype(a, v.Type())
	case *ssa.ChangeInterface:
		a := f.get(v.X)
		return &Val{K: KIface, Ty: v.Type(), Tag: a.Tag, Pay: a.Pay}
	case *ssa.Convert:
		return f.convert(st, in, f.get(v.X), v.X.Type(), v.Type())
	case *ssa.MultiConvert:
		return f.convert(st, in, f.get(v.X), v.X.Type(), v.Type())
	case *ssa.Extract:
		return f.get(v.Tuple).F[v.Index]
	case *ssa.Field:
		return f.get(v.X).F[v.Field]
	case *ssa.FieldAddr:
		p := f.get(v.X)
		f.nilCheck(st, in, p.T)
		return scalar(RefSub(p.T, v.Field), v.Type())
	case *ssa.Index:
		return f.indexVal(st, in, f.get(v.X), f.get(v.Index), v)
	case *ssa.IndexAddr:
		return f.indexAddr(st, in, v)
	case *ssa.Lookup:
		return f.lookup(st, v)
	case *ssa.MakeInterface:
		return f.makeIface(st, f.get(v.X), v.X.Type(), v.Type())
	case *ssa.MakeClosure:
		fv := &Val{K: KFunc, Ty: v.Type(), Fn: v.Fn.(*ssa.Function)}
		for _, b := range v.Bindings {
			fv.Binds = append(fv.Binds, f.get(b))
		}
		return fv
	case *ssa.MakeMap:
		r := c.newObj()
		mt := v.Type().Underlying().(*types.Map)
		pres, _, pn, _, _, _ := c.mapMems(st, mt)
		_, inner := arrSorts(pres.Sort)
		c.memSet(st, pn, Store(pres, r, raw("((as const "+inner+") false)", inner)))
		return scalar(r, v.Type())
	case *ssa.MakeChan:
		return scalar(c.newObj(), v.Type())
	case *ssa.MakeSlice:
		ln := f.toIdx(f.get(v.Len), v.Len.Type())
		cp := f.toIdx(f.get(v.Cap), v.Cap.Type())
		f.panicSite(st, in, "makeslice", Or(c.idxLt(ln, c.idxLit(0)), c.idxLt(cp, ln)), "makeslice: len out of range")
		lim := c.idxLit(1 << 48)
		c.Assume(st.reach, c.idxLt(cp, lim), "allocation size is below 2^48 elements (larger allocations abort the process)")
		nb := c.newObj()
		et := elemOf(v.Type())
		if cp.C != nil && cp.C.IsInt64() && cp.C.Int64()*int64(leafCount(et)) <= 96 {
			for i := int64(0); i < cp.C.Int64(); i++ {
				c.store(st, RefElem(nb, c.idxLit(i)), et, c.zero(et))
			}
		} else {
			c.needQuantHeap = true
		}
		return &Val{K: KSlice, Ty: v.Type(), Base: nb, Off: c.idxLit(0), Len: ln, Cap: cp}
	case *ssa.Slice:
		return f.sliceOp(st, in, v)
	case *ssa.TypeAssert:
		return f.typeAssert(st, in, v)
	case *ssa.Range:
		// iterator: remember the collection
		col := f.get(v.X)
		return &Val{K: KTuple, Ty: v.Type(), F: []*Val{col}}
	case *ssa.Next:
		return f.next(st, v)
	case *ssa.SliceToArrayPointer:
		s := f.get(v.X)
		return scalar(RefElem(s.Base, s.Off), v.Type()) // approximated; flagged
	}
	panic(unsupported("value instruction %T in %s", x, f.fn.Name()))
}

func retype(a *Val, t types.Type) *Val {
	n := *a
	n.Ty = t
	return &n
}

// toIdx converts an integer value to the index sort (Go int).
func (f *Frame) toIdx(v *Val, t types.Type) Term {
	if f.c.intMode {
		return v.T
	}
	w, signed, ok := intInfo(t)
	if !ok {
		panic(unsupported("index of type %s", t))
	}
	_ = w
	return Resize(v.T, 64, signed)
}

func (f *Frame) unop(st *State, in ssa.Instruction, v *ssa.UnOp) *Val {
	c := f.c
	a := f.get(v.X)
	switch v.Op {
	case token.MUL:
		f.nilCheck(st, in, a.T)
		return c.load(st, a.T, v.Type())
	case token.NOT:
		return scalar(Not(a.T), v.Type())
	case token.SUB:
		if _, ok := isFloat(v.Type()); ok {
			w := bvWidth(a.T.Sort)
			return scalar(BVXor(a.T, BVLit(new(big.Int).Lsh(big.NewInt(1), uint(w-1)), w)), v.Type())
		}
		if c.intMode {
			r := ISub(IntLitI(0), a.T)
			f.overflowCheck(st, in, r, v.Type())
			return scalar(r, v.Type())
		}
		return scalar(BVNeg(a.T), v.Type())
	case token.XOR:
		if c.intMode {
			w, signed, _ := intInfo(v.Type())
			if signed {
				return scalar(ISub(IntLitI(-1), a.T), v.Type())
			}
			_, hi := typeRange(w, false)
			return scalar(ISub(IntLit(hi), a.T), v.Type())
		}
		return scalar(BVNot(a.T), v.Type())
	}
	panic(unsupported("unary operator %s", v.Op))
}

func (f *Frame) overflowCheck(st *State, in ssa.Instruction, r Term, t types.Type) {
	w, signed, ok := intInfo(t)
	if !ok {
		return
	}
	lo, hi := typeRange(w, signed)
	inRange := And(ILe(IntLit(lo), r), ILe(r, IntLit(hi)))
	if inRange.IsTrue() {
		return
	}
	label := f.siteLabel(in, "overflow")
	o := f.c.Oblige("overflow", label, st.reach, inRange, f.pos(in), "arithmetic stays in range (arith int mode)")
	o.Inputs = f.topFrame().inputTerms()
	// continue under the assumption (the obligation above carries the proof)
	f.c.Assume(st.reach, inRange, "range proved by overflow obligation")
}

func (f *Frame) binop(st *State, in ssa.Instruction, op token.Token, a, b *Val, rt types.Type) *Val {
	c := f.c
	xt := a.Ty
	if a.K == KIface || b.K == KIface {
		e := And(Eq(a.Tag, b.Tag), Eq(a.Pay, b.Pay))
		if op == token.NEQ {
			e = Not(e)
		}
		return scalar(e, rt)
	}
	if a.K == KTuple {
		e := c.valEqTerm(a, b)
		if op == token.NEQ {
			e = Not(e)
		}
		return scalar(e, rt)
	}
	if a.K == KSlice || b.K == KSlice {
		// only comparison with nil is legal
		s := a
		if a.K != KSlice {
			s = b
		}
		e := Eq(s.Base, TNull)
		if op == token.NEQ {
			e = Not(e)
		}
		return scalar(e, rt)
	}
	if a.K == KFunc || b.K == KFunc {
		fv := a
		if a.K != KFunc {
			fv = b
		}
		e := Bool(fv.Fn == nil)
		if op == token.NEQ {
			e = Not(e)
		}
		return scalar(e, rt)
	}
	x, y := a.T, b.T
	// floats
	if fw, ok := isFloat(xt); ok && x.Sort != SBool {
		return f.floatBin(op, x, y, fw, rt)
	}
	switch x.Sort {
	case SBool, SRef, SStr:
		switch op {
		case token.EQL:
			return scalar(Eq(x, y), rt)
		case token.NEQ:
			return scalar(Neq(x, y), rt)
		case token.ADD:
			return scalar(c.UF("str.concat", SStr, x, y), rt)
		case token.LSS, token.GTR, token.LEQ, token.GEQ:
			return scalar(c.UF("str.cmp."+op.String(), SBool, x, y), rt)
		case token.AND, token.LAND:
			return scalar(And(x, y), rt)
		case token.OR, token.LOR:
			return scalar(Or(x, y), rt)
		}
		panic(unsupported("operator %s on %s", op, x.Sort))
	}
	w, signed, ok := intInfo(xt)
	if !ok {
		panic(unsupported("binary operator %s on %s", op, xt))
	}
	if c.intMode {
		return f.intBin(st, in, op, x, y, w, signed, b.Ty, rt)
	}
	switch op {
	case token.ADD:
		return scalar(BVAdd(x, y), rt)
	case token.SUB:
		return scalar(BVSub(x, y), rt)
	case token.MUL:
		return scalar(BVMul(c.known(x), c.known(y)), rt)
	case token.QUO:
		y = c.known(y)
		f.panicSite(st, in, "divzero", Eq(y, BVLitI(0, w)), "integer divide by zero")
		if signed {
			return scalar(BVSDiv(x, y), rt)
		}
		return scalar(BVUDiv(x, y), rt)
	case token.REM:
		f.panicSite(st, in, "divzero", Eq(y, BVLitI(0, w)), "integer divide by zero")
		if signed {
			return scalar(BVSRem(x, y), rt)
		}
		return scalar(BVURem(x, y), rt)
	case token.AND:
		return scalar(BVAnd(x, y), rt)
	case token.OR:
		return scalar(BVOr(x, y), rt)
	case token.XOR:
		return scalar(BVXor(x, y), rt)
	case token.AND_NOT:
		return scalar(BVAnd(x, BVNot(y)), rt)
	case token.SHL, token.SHR:
		y = c.known(y)
		yw, ysigned, _ := intInfo(b.Ty)
		if ysigned {
			f.panicSite(st, in, "negshift", BVSlt(y, BVLitI(0, yw)), "negative shift amount")
		}
		var cnt Term
		var tooBig Term = TFalse
		if yw > w {
			tooBig = BVUle(BVLitI(int64(w), yw), y)
			cnt = Extract(w-1, 0, y)
		} else {
			cnt = ZeroExt(w-yw, y)
		}
		var r, big Term
		switch {
		case op == token.SHL:
			r, big = BVShl(x, cnt), BVLitI(0, w)
		case signed:
			r, big = BVAshr(x, cnt), BVAshr(x, BVLitI(int64(w-1), w))
		default:
			r, big = BVLshr(x, cnt), BVLitI(0, w)
		}
		return scalar(Ite(tooBig, big, r), rt)
	case token.EQL:
		return scalar(Eq(x, y), rt)
	case token.NEQ:
		return scalar(Neq(x, y), rt)
	case token.LSS:
		if signed {
			return scalar(BVSlt(x, y), rt)
		}
		return scalar(BVUlt(x, y), rt)
	case token.LEQ:
		if signed {
			return scalar(BVSle(x, y), rt)
		}
		return scalar(BVUle(x, y), rt)
	case token.GTR:
		if signed {
			return scalar(BVSlt(y, x), rt)
		}
		return scalar(BVUlt(y, x), rt)
	case token.GEQ:
		if signed {
			return scalar(BVSle(y, x), rt)
		}
		return scalar(BVUle(y, x), rt)
	}
	panic(unsupported("binary operator %s", op))
}

func pow2(k int) *big.Int { return new(big.Int).Lsh(big.NewInt(1), uint(k)) }

func (f *Frame) intBin(st *State, in ssa.Instruction, op token.Token, x, y Term, w int, signed bool, yt, rt types.Type) *Val {
	c := f.c
	chk := func(r Term) *Val {
		f.overflowCheck(st, in, r, rt)
		return scalar(r, rt)
	}
	switch op {
	case token.ADD:
		return chk(IAdd(x, y))
	case token.SUB:
		return chk(ISub(x, y))
	case token.MUL:
		return chk(IMul(x, y))
	case token.QUO, token.REM:
		f.panicSite(st, in, "divzero", Eq(y, IntLitI(0)), "integer divide by zero")
		// Go truncates toward zero; SMT div/mod are Euclidean. For
		// non-negative operands they agree; otherwise use the sign-corrected form.
		q := sexp(SInt, "div", x, y)
		m := sexp(SInt, "mod", x, y)
		if signed {
			nonneg := ILe(IntLitI(0), x)
			// trunc(x/y): if x>=0: div(x,y) ; else -div(-x,y)
			negx := ISub(IntLitI(0), x)
			q = Ite(nonneg, q, ISub(IntLitI(0), sexp(SInt, "div", negx, y)))
			m = Ite(nonneg, m, ISub(IntLitI(0), sexp(SInt, "mod", negx, y)))
		}
		if op == token.QUO {
			return chk(q)
		}
		return scalar(m, rt)
	case token.EQL:
		return scalar(Eq(x, y), rt)
	case token.NEQ:
		return scalar(Neq(x, y), rt)
	case token.LSS:
		return scalar(ILt(x, y), rt)
	case token.LEQ:
		return scalar(ILe(x, y), rt)
	case token.GTR:
		return scalar(ILt(y, x), rt)
	case token.GEQ:
		return scalar(ILe(y, x), rt)
	case token.SHL:
		y = c.known(y)
		if y.C != nil && y.C.IsInt64() && y.C.Int64() < 64 {
			return chk(IMul(x, IntLit(pow2(int(y.C.Int64())))))
		}
	case token.SHR:
		y = c.known(y)
		if y.C != nil && y.C.IsInt64() && y.C.Int64() < 64 && !signed {
			return scalar(sexp(SInt, "div", x, IntLit(pow2(int(y.C.Int64())))), rt)
		}
	case token.AND:
		// x & (2^k-1) == x mod 2^k for non-negative x
		if y.C != nil && !signed {
			k := new(big.Int).Add(y.C, big.NewInt(1))
			if k.BitLen() > 0 && new(big.Int).And(k, y.C).Sign() == 0 {
				return scalar(sexp(SInt, "mod", x, IntLit(k)), rt)
			}
		}
	}
	// uninterpreted but range-bounded result
	r := c.UF(fmt.Sprintf("int.%s.%d", opName(op), w), SInt, x, y)
	lo, hi := typeRange(w, signed)
	c.Assume(st.reach, And(ILe(IntLit(lo), r), ILe(r, IntLit(hi))), "bit operation abstracted in arith int mode")
	c.note("bit operation %s abstracted as uninterpreted in arith int mode", op)
	return scalar(r, rt)
}

func opName(op token.Token) string {
	switch op {
	case token.AND:
		return "and"
	case token.OR:
		return "or"
	case token.XOR:
		return "xor"
	case token.SHL:
		return "shl"
	case token.SHR:
		return "shr"
	case token.AND_NOT:
		return "andnot"
	}
	return "op"
}

// ---- floats: bits are primary; operations are uninterpreted unless FP mode ----

func (f *Frame) floatBin(op token.Token, x, y Term, w int, rt types.Type) *Val {
	c := f.c
	if c.floatFP {
		return f.floatBinFP(op, x, y, w, rt)
	}
	name := fmt.Sprintf("f%d.%s", w, floatOpName(op))
	switch op {
	case token.ADD, token.SUB, token.MUL, token.QUO:
		return scalar(c.UF(name, SBV(w), x, y), rt)
	case token.EQL, token.LSS, token.LEQ:
		return scalar(c.UF(name, SBool, x, y), rt)
	case token.NEQ:
		return scalar(Not(c.UF(fmt.Sprintf("f%d.eq", w), SBool, x, y)), rt)
	case token.GTR:
		return scalar(c.UF(fmt.Sprintf("f%d.lt", w), SBool, y, x), rt)
	case token.GEQ:
		return scalar(c.UF(fmt.Sprintf("f%d.le", w), SBool, y, x), rt)
	}
	panic(unsupported("float operator %s", op))
}

func floatOpName(op token.Token) string {
	switch op {
	case token.ADD:
		return "add"
	case token.SUB:
		return "sub"
	case token.MUL:
		return "mul"
	case token.QUO:
		return "div"
	case token.EQL:
		return "eq"
	case token.LSS:
		return "lt"
	case token.LEQ:
		return "le"
	}
	return "op"
}

func fpSort(w int) (int, int) {
	if w == 32 {
		return 8, 24
	}
	return 11, 53
}

func toFP(x Term, w int) string {
	e, s := fpSort(w)
	return fmt.Sprintf("((_ to_fp %d %d) %s)", e, s, x.S)
}

// fpResult introduces the bit pattern of a floating-point result: any pattern
// whose FP interpretation equals the exact result (NaN payloads unconstrained).
func (c *Ctx) fpResult(expr string, w int, cond Term) Term {
	r := c.Fresh("fpr", SBV(w))
	c.Assume(TTrue, raw(fmt.Sprintf("(= %s %s)", toFP(r, w), expr), SBool), "floating-point result bits")
	return r
}

func (f *Frame) floatBinFP(op token.Token, x, y Term, w int, rt types.Type) *Val {
	c := f.c
	a, b := toFP(x, w), toFP(y, w)
	switch op {
	case token.ADD:
		return scalar(c.fpResult("(fp.add RNE "+a+" "+b+")", w, TTrue), rt)
	case token.SUB:
		return scalar(c.fpResult("(fp.sub RNE "+a+" "+b+")", w, TTrue), rt)
	case token.MUL:
		return scalar(c.fpResult("(fp.mul RNE "+a+" "+b+")", w, TTrue), rt)
	case token.QUO:
		return scalar(c.fpResult("(fp.div RNE "+a+" "+b+")", w, TTrue), rt)
	case token.EQL:
		return scalar(raw("(fp.eq "+a+" "+b+")", SBool), rt)
	case token.NEQ:
		return scalar(raw("(not (fp.eq "+a+" "+b+"))", SBool), rt)
	case token.LSS:
		return scalar(raw("(fp.lt "+a+" "+b+")", SBool), rt)
	case token.LEQ:
		return scalar(raw("(fp.leq "+a+" "+b+")", SBool), rt)
	case token.GTR:
		return scalar(raw("(fp.gt "+a+" "+b+")", SBool), rt)
	case token.GEQ:
		return scalar(raw("(fp.geq "+a+" "+b+")", SBool), rt)
	}
	panic(unsupported("float operator %s", op))
}

// ---- conversions -----------------------------------------------------------------

func (f *Frame) convert(st *State, in ssa.Instruction, a *Val, from, to types.Type) *Val {
	c := f.c
	fw, fsigned, fInt := intInfo(from)
	tw, tsigned, tInt := intInfo(to)
	ffw, fFloat := isFloat(from)
	tfw, tFloat := isFloat(to)
	switch {
	case fInt && tInt:
		if c.intMode {
			lo, hi := typeRange(tw, tsigned)
			inRange := And(ILe(IntLit(lo), a.T), ILe(a.T, IntLit(hi)))
			if inRange.IsTrue() {
				return scalar(a.T, to)
			}
			// wrap-around conversion
			m := sexp(SInt, "mod", a.T, IntLit(pow2(tw)))
			if tsigned {
				m = Ite(ILe(m, IntLit(hi)), m, ISub(m, IntLit(pow2(tw))))
			}
			// keep the common non-wrapping case simple for the solver
			return scalar(Ite(inRange, a.T, m), to)
		}
		return scalar(Resize(a.T, tw, fsigned), to)
	case fInt && tFloat:
		if c.floatFP && !c.intMode {
			e, s := fpSort(tfw)
			opn := "to_fp_unsigned"
			if fsigned {
				opn = "to_fp"
			}
			return scalar(c.fpResult(fmt.Sprintf("((_ %s %d %d) RNE %s)", opn, e, s, a.T.S), tfw, TTrue), to)
		}
		return scalar(c.UF(fmt.Sprintf("cvt.%s%d.f%d", sgn(fsigned), fw, tfw), SBV(tfw), a.T), to)
	case fFloat && tInt:
		return scalar(c.UF(fmt.Sprintf("cvt.f%d.%s%d", ffw, sgn(tsigned), tw), c.intSort(tw), a.T), to)
	case fFloat && tFloat:
		if ffw == tfw {
			return scalar(a.T, to)
		}
		if c.floatFP {
			e, s := fpSort(tfw)
			return scalar(c.fpResult(fmt.Sprintf("((_ to_fp %d %d) RNE %s)", e, s, toFP(a.T, ffw)), tfw, TTrue), to)
		}
		return scalar(c.UF(fmt.Sprintf("cvt.f%d.f%d", ffw, tfw), SBV(tfw), a.T), to)
	}
	// string <-> []byte etc.
	if _, ok := to.Underlying().(*types.Slice); ok {
		c.note("string/slice conversion abstracted")
		return c.freshVal("conv", to)
	}
	if b, ok := to.Underlying().(*types.Basic); ok && b.Kind() == types.String {
		c.note("conversion to string abstracted")
		return c.freshVal("conv", to)
	}
	if c.scalarSort(from) == SRef && c.scalarSort(to) == SRef {
		panic(unsupported("unsafe pointer conversion in %s", f.fn.Name()))
	}
	panic(unsupported("conversion %s -> %s", from, to))
}

func sgn(s bool) string {
	if s {
		return "i"
	}
	return "u"
}

// ---- aggregates ----------------------------------------------------------------------

func (f *Frame) indexVal(st *State, in ssa.Instruction, a, i *Val, v *ssa.Index) *Val {
	c := f.c
	if a.K != KTuple {
		c.note("string indexing abstracted")
		return c.freshVal("stridx", v.Type())
	}
	idx := f.toIdx(i, v.Index.Type())
	n := int64(len(a.F))
	f.panicSite(st, in, "index", Or(c.idxLt(idx, c.idxLit(0)), c.idxLe(c.idxLit(n), idx)), "index out of range")
	if idx.C != nil && idx.C.IsInt64() && idx.C.Int64() < n {
		return a.F[idx.C.Int64()]
	}
	acc := a.F[n-1]
	for k := n - 2; k >= 0; k-- {
		acc = c.iteVal(Eq(idx, c.idxLit(k)), a.F[k], acc)
	}
	return acc
}

func (f *Frame) indexAddr(st *State, in ssa.Instruction, v *ssa.IndexAddr) *Val {
	c := f.c
	a := f.get(v.X)
	idx := f.toIdx(f.get(v.Index), v.Index.Type())
	c.addTrig(idx)
	if a.K == KSlice {
		f.panicSite(st, in, "index", Or(c.idxLt(idx, c.idxLit(0)), c.idxLe(a.Len, idx)), "index out of range")
		return scalar(RefElem(a.Base, c.idxAdd(a.Off, idx)), v.Type())
	}
	// pointer to array
	arr := deref(v.X.Type()).Underlying().(*types.Array)
	f.nilCheck(st, in, a.T)
	f.panicSite(st, in, "index", Or(c.idxLt(idx, c.idxLit(0)), c.idxLe(c.idxLit(arr.Len()), idx)), "index out of range")
	return scalar(RefElem(a.T, idx), v.Type())
}

func (f *Frame) sliceOp(st *State, in ssa.Instruction, v *ssa.Slice) *Val {
	c := f.c
	a := f.get(v.X)
	var base, off, ln, cp Term
	switch {
	case a.K == KSlice:
		base, off, ln, cp = a.Base, a.Off, a.Len, a.Cap
	case a.K == KScalar && a.T.Sort == SRef:
		arr := deref(v.X.Type()).Underlying().(*types.Array)
		f.nilCheck(st, in, a.T)
		base, off, ln, cp = a.T, c.idxLit(0), c.idxLit(arr.Len()), c.idxLit(arr.Len())
	default:
		c.note("string slicing abstracted")
		return c.freshVal("strslice", v.Type())
	}
	lo := c.idxLit(0)
	if v.Low != nil {
		lo = f.toIdx(f.get(v.Low), v.Low.Type())
	}
	hi := ln
	if v.High != nil {
		hi = f.toIdx(f.get(v.High), v.High.Type())
	}
	mx := cp
	if v.Max != nil {
		mx = f.toIdx(f.get(v.Max), v.Max.Type())
	}
	bad := Or(c.idxLt(lo, c.idxLit(0)), c.idxLt(hi, lo), c.idxLt(mx, hi), c.idxLt(cp, mx))
	f.panicSite(st, in, "slice", bad, "slice bounds out of range")
	return &Val{K: KSlice, Ty: v.Type(), Base: base, Off: c.idxAdd(off, lo), Len: c.idxSub(hi, lo), Cap: c.idxSub(mx, lo)}
}

func (f *Frame) makeIface(st *State, a *Val, from, to types.Type) *Val {
	c := f.c
	tag := c.typeTag(from)
	if a.K == KScalar && a.T.Sort == SRef {
		if _, isPtr := from.Underlying().(*types.Pointer); isPtr {
			return &Val{K: KIface, Ty: to, Tag: tag, Pay: a.T}
		}
	}
	if a.K == KIface {
		return &Val{K: KIface, Ty: to, Tag: a.Tag, Pay: a.Pay}
	}
	if a.K == KFunc {
		return &Val{K: KIface, Ty: to, Tag: tag, Pay: c.Fresh("fnbox", SRef)}
	}
	// box the value
	r := c.newObj()
	c.store(st, r, from, a)
	return &Val{K: KIface, Ty: to, Tag: tag, Pay: r}
}

func (f *Frame) typeAssert(st *State, in ssa.Instruction, v *ssa.TypeAssert) *Val {
	c := f.c
	a := f.get(v.X)
	var ok Term
	var val *Val
	if types.IsInterface(v.AssertedType) {
		iface := v.AssertedType.Underlying().(*types.Interface)
		if a.Tag.C != nil {
			if a.Tag.C.Sign() == 0 {
				ok = TFalse
			} else {
				dt := c.W.tagType(int(a.Tag.C.Int64()))
				ok = Bool(types.Implements(dt, iface))
			}
		} else {
			ok = And(Neq(a.Tag, IntLitI(0)), c.UF("implements."+typeKey(v.AssertedType), SBool, a.Tag))
			if types.AssignableTo(v.X.Type(), v.AssertedType) {
				ok = Neq(a.Tag, IntLitI(0))
			}
		}
		val = &Val{K: KIface, Ty: v.AssertedType, Tag: a.Tag, Pay: a.Pay}
	} else {
		ok = Eq(a.Tag, c.typeTag(v.AssertedType))
		if _, isPtr := v.AssertedType.Underlying().(*types.Pointer); isPtr {
			val = scalar(a.Pay, v.AssertedType)
		} else {
			val = c.load(st, a.Pay, v.AssertedType)
		}
	}
	if v.CommaOk {
		z := c.zero(v.AssertedType)
		return &Val{K: KTuple, Ty: v.Type(), F: []*Val{c.iteVal(ok, val, z), scalar(ok, types.Typ[types.Bool])}}
	}
	f.panicSite(st, in, "typeassert", Not(ok), "interface conversion")
	return val
}

// ---- maps ------------------------------------------------------------------------------

func (c *Ctx) mapMems(st *State, mt *types.Map) (pres Term, vals []Term, presName string, valNames []string, ks string, leaves []leaf) {
	ks = c.scalarSort(mt.Key())
	if ks == "" {
		if _, isIface := mt.Key().Underlying().(*types.Interface); isIface {
			panic(unsupported("map with interface key"))
		}
		panic(unsupported("map key type %s", mt.Key()))
	}
	key := typeKey(mt)
	presName = "MAPP_" + key
	pres = c.mapMemGet(st, presName, SArr(ks, SBool))
	leaves = c.valLeaves(mt.Elem())
	for i, l := range leaves {
		n := fmt.Sprintf("MAPV_%s_%d", key, i)
		valNames = append(valNames, n)
		vals = append(vals, c.mapMemGet(st, n, SArr(ks, l.sort)))
	}
	return
}

// mapValueAllocated: a reference read out of a map denotes an object allocated when the
// memory version it is read from was current (ground instances of heap well-formedness along
// the version chain; map memories carry no quantified axioms).
func (c *Ctx) mapValueAllocated(va, m, k Term) {
	if c.inQuant > 0 {
		return
	}
	_, inner := arrSorts(va.Sort)
	if _, vs := arrSorts(inner); vs != SRef {
		return
	}
	lim := birthBase + c.nextObj + 1
	var walk func(v Term, depth int)
	walk = func(v Term, depth int) {
		if depth > 4096 {
			return
		}
		bound := lim
		var next []Term
		if strings.HasPrefix(v.S, "M0_") {
			bound = birthBase
		} else if fr, ok := c.frameRecs[v.S]; ok {
			bound = fr.bound + 256
			next = []Term{fr.old}
		} else if parts, ok := c.mergeOf[v.S]; ok {
			next = parts
		} else if rec, ok := c.storeOf[v.S]; ok {
			next = []Term{rec.base}
		}
		x := Select(Select(v, m), k)
		key := fmt.Sprintf("mva|%d|%s", bound, x.S)
		if !c.assumed[key] {
			c.assumed[key] = true
			c.assumes = append(c.assumes, Assume{declPos: len(c.decls), optAx: true, why: "references stored in maps denote allocated objects (instance)",
				t: And(ILe(IntLitI(0), RefRoot(x)), ILt(RefRoot(x), IntLitI(int64(bound))))})
		}
		for _, n := range next {
			walk(n, depth+1)
		}
	}
	walk(va, 0)
}

func (c *Ctx) mapMemGet(st *State, name, inner string) Term {
	if t, ok := st.mem[name]; ok {
		return t
	}
	c.declareMem(name, SArr(SRef, inner))
	t := c.memPeek(st, name)
	st.mem[name] = t
	return t
}

func (c *Ctx) scalarSortName(arr string) string { k, _ := arrSorts(arr); return k }

// valLeaves flattens a value type into leaf sorts (for map values).
func (c *Ctx) valLeaves(t types.Type) []leaf {
	switch u := t.Underlying().(type) {
	case *types.Struct:
		var out []leaf
		for i := 0; i < u.NumFields(); i++ {
			for _, l := range c.valLeaves(u.Field(i).Type()) {
				out = append(out, leaf{fmt.Sprintf(".%d%s", i, l.suffix), l.sort})
			}
		}
		return out
	case *types.Array:
		panic(unsupported("array as map value"))
	}
	return c.cellLeaves(t)
}

func (c *Ctx) flatten(v *Val) []Term {
	switch v.K {
	case KScalar:
		return []Term{v.T}
	case KSlice:
		return []Term{v.Base, v.Off, v.Len, v.Cap}
	case KIface:
		return []Term{v.Tag, v.Pay}
	case KTuple:
		var out []Term
		for _, f := range v.F {
			out = append(out, c.flatten(f)...)
		}
		return out
	}
	panic(unsupported("flatten function value"))
}

func (c *Ctx) unflatten(t types.Type, ts []Term) (*Val, []Term) {
	switch u := t.Underlying().(type) {
	case *types.Struct:
		v := &Val{K: KTuple, Ty: t}
		for i := 0; i < u.NumFields(); i++ {
			var fv *Val
			fv, ts = c.unflatten(u.Field(i).Type(), ts)
			v.F = append(v.F, fv)
		}
		return v, ts
	case *types.Slice:
		return &Val{K: KSlice, Ty: t, Base: ts[0], Off: ts[1], Len: ts[2], Cap: ts[3]}, ts[4:]
	case *types.Interface:
		return &Val{K: KIface, Ty: t, Tag: ts[0], Pay: ts[1]}, ts[2:]
	}
	return scalar(ts[0], t), ts[1:]
}

func (f *Frame) mapKey(v *Val, mt *types.Map) Term {
	return v.T
}

func (f *Frame) lookup(st *State, v *ssa.Lookup) *Val {
	c := f.c
	mt, ok := v.X.Type().Underlying().(*types.Map)
	if !ok {
		c.note("string indexing abstracted")
		return c.freshVal("stridx", v.Type())
	}
	m := f.get(v.X)
	k := f.mapKey(f.get(v.Index), mt)
	pres, vals, _, _, _, _ := c.mapMems(st, mt)
	c.groundFrames(pres, m.T)
	for _, va := range vals {
		c.groundFrames(va, m.T)
	}
	has := Select(Select(pres, m.T), k)
	var ts []Term
	for _, va := range vals {
		x := Select(Select(va, m.T), k)
		c.mapValueAllocated(va, m.T, k)
		ts = append(ts, x)
	}
	val, _ := c.unflatten(mt.Elem(), ts)
	val = c.iteVal(has, val, c.zero(mt.Elem()))
	if v.CommaOk {
		return &Val{K: KTuple, Ty: v.Type(), F: []*Val{val, scalar(has, types.Typ[types.Bool])}}
	}
	return val
}

func (f *Frame) mapUpdate(st *State, v *ssa.MapUpdate) {
	c := f.c
	mt := v.Map.Type().Underlying().(*types.Map)
	m := f.get(v.Map)
	f.panicSite(st, v, "nilmap", Eq(m.T, TNull), "assignment to entry in nil map")
	k := f.mapKey(f.get(v.Key), mt)
	pres, vals, pn, vn, _, _ := c.mapMems(st, mt)
	c.memSet(st, pn, Store(pres, m.T, Store(Select(pres, m.T), k, TTrue)))
	ts := c.flatten(f.get(v.Value))
	for i, va := range vals {
		c.memSet(st, vn[i], Store(va, m.T, Store(Select(va, m.T), k, ts[i])))
	}
}

func (f *Frame) mapDelete(st *State, m *Val, k *Val, mt *types.Map) {
	c := f.c
	pres, _, pn, _, _, _ := c.mapMems(st, mt)
	c.memSet(st, pn, Store(pres, m.T, Store(Select(pres, m.T), f.mapKey(k, mt), TFalse)))
}

// next models one step of a range iteration: over a map it yields an arbitrary
// present key (the order is not specified by Go).
func (f *Frame) next(st *State, v *ssa.Next) *Val {
	c := f.c
	it := f.get(v.Iter)
	col := it.F[0]
	tup := v.Type().(*types.Tuple)
	ok := c.Fresh("next.ok", SBool)
	if v.IsString {
		return &Val{K: KTuple, Ty: v.Type(), F: []*Val{scalar(ok, tup.At(0).Type()), c.freshVal("next.k", tup.At(1).Type()), c.freshVal("next.v", tup.At(2).Type())}}
	}
	rng := v.Iter.(*ssa.Range)
	mt := rng.X.Type().Underlying().(*types.Map)
	var kv, vv *Val
	kt, vt := tup.At(1).Type(), tup.At(2).Type()
	key := c.freshVal("next.k", mt.Key())
	pres, vals, _, _, _, _ := c.mapMems(st, mt)
	c.Assume(st.reach, Implies(ok, Select(Select(pres, col.T), key.T)), "range yields present keys")
	if _, inv := kt.(*types.Basic); inv && kt.(*types.Basic).Kind() == types.Invalid {
		kv = scalar(TFalse, kt)
	} else {
		kv = key
	}
	if b, inv := vt.(*types.Basic); inv && b.Kind() == types.Invalid {
		vv = scalar(TFalse, vt)
	} else {
		var ts []Term
		for _, va := range vals {
			ts = append(ts, Select(Select(va, col.T), key.T))
		}
		vv, _ = c.unflatten(mt.Elem(), ts)
	}
	return &Val{K: KTuple, Ty: v.Type(), F: []*Val{scalar(ok, tup.At(0).Type()), kv, vv}}
}

// leafCount: number of memory cells a value of type t occupies.
func leafCount(t types.Type) int {
	switch u := t.Underlying().(type) {
	case *types.Struct:
		n := 0
		for i := 0; i < u.NumFields(); i++ {
			n += leafCount(u.Field(i).Type())
		}
		return n
	case *types.Array:
		return int(u.Len()) * leafCount(u.Elem())
	case *types.Slice:
		return 4
	case *types.Interface:
		return 2
	}
	return 1
}
