package main

// Replay of ISA-table counterexamples: the real handler is run on a real
// emu.Wavefront (the real register store) seeded from the solver's model, and
// the observed architectural state is fed back to the solver.

import (
	"fmt"
	"math/big"
	"path/filepath"
	"regexp"
	"sort"
	"strings"
)

func modelBig(model map[string]string, t Term) (*big.Int, bool) {
	if t.C != nil {
		return t.C, true
	}
	v, ok := model[t.S]
	if !ok {
		return nil, false
	}
	return smtValueToBig(v)
}

func isaReplay(w *World, o checkOpts, ob *Obligation, ct *Contract) *ReplayResult {
	e := w.isaTable[ct.Extra["isa"][0]]
	if e == nil {
		return &ReplayResult{Reason: "no ISA entry"}
	}
	if e.PerLane {
		if ob.CTI == nil {
			return &ReplayResult{Reason: "no concrete lane input: the lane-loop invariant clauses held, the failure is outside the loop"}
		}
		return isaReplayLane(w, o, ob, ct, e)
	}
	model := parseModel(ob.Model)
	get := func(label string) (*big.Int, bool) {
		t, ok := ob.Inputs[label]
		if !ok {
			return nil, false
		}
		return modelBig(model, t)
	}
	s64 := func(b *big.Int) int64 {
		if b.Bit(63) == 1 {
			return new(big.Int).Sub(b, pow2(64)).Int64()
		}
		return b.Int64()
	}
	fn := ct.Fn
	pkgName := fn.Pkg.Pkg.Name()
	inEmu := pkgName == "emu"
	var sb strings.Builder
	fmt.Fprintf(&sb, "package %s\n\nimport (\n\t\"encoding/binary\"\n\t\"fmt\"\n\t\"math\"\n\t\"testing\"\n\n\t\"github.com/sarchlab/mgpusim/v4/amd/insts\"\n", pkgName)
	if !inEmu {
		sb.WriteString("\t\"github.com/sarchlab/mgpusim/v4/amd/emu\"\n")
	}
	sb.WriteString(")\n\nvar _ = math.Pi\nvar _ = binary.LittleEndian\n\n")
	wfNew := "NewWavefront(nil)"
	if !inEmu {
		wfNew = "emu.NewWavefront(nil)"
		sb.WriteString("type gocvState struct {\n\t*emu.Wavefront\n\ti *insts.Inst\n}\n\nfunc (s *gocvState) Inst() *insts.Inst { return s.i }\n\n")
	}
	sb.WriteString("func gocvOp(ot, rt, rc int, iv int64, lit uint32, fl uint64) *insts.Operand {\n\to := &insts.Operand{OperandType: insts.OperandType(ot), RegCount: rc, IntValue: iv, LiteralConstant: lit, FloatValue: math.Float64frombits(fl)}\n\tif ot == insts.RegOperand {\n\t\to.Register = insts.Regs[insts.RegType(rt)]\n\t}\n\treturn o\n}\n\n")
	sb.WriteString("func TestGocvReplay(t *testing.T) {\n\tdefer func() {\n\t\tif r := recover(); r != nil {\n\t\t\tfmt.Printf(\"GOCV_PANIC %v\\n\", r)\n\t\t}\n\t}()\n")
	fmt.Fprintf(&sb, "\twf := %s\n\tinst := insts.NewInst()\n", wfNew)
	rr := &ReplayResult{Inputs: map[string]string{}, Observed: map[string]string{}}
	regS0 := w.instsConst("S0")
	regS101 := w.instsConst("S101")
	var ops []string
	for opn := range e.Ops {
		ops = append(ops, opn)
	}
	sort.Strings(ops)
	dstIdx := int64(-1)
	for _, opn := range ops {
		ot, ok1 := get(opn + ".type")
		rt, ok2 := get(opn + ".regtype")
		rc, ok3 := get(opn + ".regcount")
		iv, ok4 := get(opn + ".int")
		lit, ok5 := get(opn + ".lit")
		fl, ok6 := get(opn + ".float")
		val, ok7 := get(opn + ".value")
		if !(ok1 && ok2 && ok3 && ok4 && ok5 && ok6 && ok7) {
			return &ReplayResult{Reason: "model lacks descriptor values for operand " + opn}
		}
		isReg := ot.Int64() == w.instsConst("RegOperand")
		rtv := int64(0)
		if isReg {
			rtv = s64(rt)
		}
		fmt.Fprintf(&sb, "\tinst.%s = gocvOp(%d, %d, %d, %d, %d, %d)\n", isaOperandField[opn], ot.Int64(), rtv, s64(rc), s64(iv), lit.Uint64(), fl.Uint64())
		rr.Inputs[opn] = fmt.Sprintf("type=%d regtype=%d regcount=%d int=%d lit=%#x value=%#x", ot.Int64(), rtv, s64(rc), s64(iv), lit.Uint64(), val)
		if isReg && rtv >= regS0 && rtv <= regS101 {
			idx := rtv - regS0
			if opn == "D" {
				dstIdx = idx
			}
			// seed the register cells with the value the model reads
			fmt.Fprintf(&sb, "\tbinary.LittleEndian.PutUint32(wf.SRegFile[%d:], %d)\n", idx*4, new(big.Int).And(val, mask(32)).Uint64())
			if e.Ops[opn] == 64 && idx+1 <= regS101-regS0 {
				fmt.Fprintf(&sb, "\tbinary.LittleEndian.PutUint32(wf.SRegFile[%d:], %d)\n", (idx+1)*4, new(big.Int).Rsh(val, 32).Uint64())
			}
		}
	}
	for _, g := range []string{"SCC", "VCC", "EXEC", "PC", "M0"} {
		v, ok := get(g)
		if !ok {
			return &ReplayResult{Reason: "model lacks " + g}
		}
		rr.Inputs[g] = fmt.Sprintf("%#x", v)
		switch g {
		case "SCC":
			fmt.Fprintf(&sb, "\twf.SetSCC(%d)\n", v.Uint64())
		case "M0":
			fmt.Fprintf(&sb, "\twf.M0 = %d\n", v.Uint64())
		default:
			fmt.Fprintf(&sb, "\twf.Set%s(%d)\n", g, v.Uint64())
		}
	}
	if inEmu {
		sb.WriteString("\twf.inst = inst\n\tvar state InstEmuState = wf\n")
	} else {
		sb.WriteString("\tvar state emu.InstEmuState = &gocvState{wf, inst}\n")
	}
	fmt.Fprintf(&sb, "\tNewALU(nil).%s(state)\n", fn.Name())
	sb.WriteString("\tfmt.Printf(\"GOCV_OUT SCC %d\\n\", wf.SCC())\n\tfmt.Printf(\"GOCV_OUT VCC %d\\n\", wf.VCC())\n\tfmt.Printf(\"GOCV_OUT EXEC %d\\n\", wf.EXEC())\n\tfmt.Printf(\"GOCV_OUT PC %d\\n\", wf.PC())\n\tfmt.Printf(\"GOCV_OUT M0 %d\\n\", wf.M0)\n")
	if dstIdx >= 0 {
		fmt.Fprintf(&sb, "\tfmt.Printf(\"GOCV_OUT Dcell0 %%d\\n\", binary.LittleEndian.Uint32(wf.SRegFile[%d:]))\n", dstIdx*4)
		if dstIdx+1 <= regS101-regS0 {
			fmt.Fprintf(&sb, "\tfmt.Printf(\"GOCV_OUT Dcell1 %%d\\n\", binary.LittleEndian.Uint32(wf.SRegFile[%d:]))\n", (dstIdx+1)*4)
		}
	}
	sb.WriteString("\tfmt.Println(\"GOCV_DONE\")\n}\n")
	rr.TestSource = sb.String()
	pkgDir := filepath.Join(o.repo, strings.TrimPrefix(ct.PkgPath, "github.com/sarchlab/mgpusim/v4/"))
	out, err := runOverlayTest(o, pkgDir, sb.String(), ob.Name)
	rr.Output = trunc(out, 3000)
	if err != nil && !strings.Contains(out, "GOCV_") {
		rr.Reason = "replay test did not run: " + err.Error()
		return rr
	}
	if strings.Contains(out, "GOCV_PANIC") {
		rr.Reason = "real handler panicked on the model input"
		return rr
	}
	// pin inputs and observed outputs, then let the solver evaluate the obligation
	var pins []string
	var labels []string
	for k := range ob.Inputs {
		labels = append(labels, k)
	}
	sort.Strings(labels)
	for _, k := range labels {
		t := ob.Inputs[k]
		if v, ok := model[t.S]; ok {
			pins = append(pins, fmt.Sprintf("(assert (= %s %s))", t.S, v))
		}
	}
	for _, m := range regexp.MustCompile(`GOCV_OUT (\S+) (\d+)`).FindAllStringSubmatch(out, -1) {
		rr.Observed[m[1]] = m[2]
		t, ok := ob.Results[m[1]]
		if !ok {
			continue
		}
		n, _ := new(big.Int).SetString(m[2], 10)
		pins = append(pins, fmt.Sprintf("(assert (= %s %s))", t.S, BVLit(n, bvWidth(t.Sort)).S))
	}
	q := ob.Query(false)
	q = strings.Replace(q, "(check-sat)", strings.Join(pins, "\n")+"\n(check-sat)", 1)
	v := decide(q, 30, false)
	switch v.Answer {
	case "sat":
		rr.Reproduced = true
	case "unsat":
		rr.Reason = "the state observed after running the real handler satisfies the obligation, or contradicts the engine's semantics (spurious counterexample)"
	default:
		rr.Reason = "solver could not evaluate the obligation on the observed state"
	}
	return rr
}

// isaReplayLane replays a failed lane-loop step clause: the model gives one lane, the operand
// values of that lane, EXEC and VCC; the real handler is run on a real Wavefront with exactly that
// lane enabled, and the destination cells / VCC bit of the lane are fed back to the solver.
func isaReplayLane(w *World, o checkOpts, ob *Obligation, ct *Contract, e *IsaEntry) *ReplayResult {
	cti := ob.CTI
	model := parseModel(cti.Model)
	get := func(label string) (*big.Int, bool) {
		t, ok := cti.Inputs[label]
		if !ok {
			return nil, false
		}
		return modelBig(model, t)
	}
	s64 := func(b *big.Int) int64 {
		if b.Bit(63) == 1 {
			return new(big.Int).Sub(b, pow2(64)).Int64()
		}
		return b.Int64()
	}
	laneB, ok := get("lane")
	if !ok || laneB.Cmp(big.NewInt(64)) >= 0 {
		return &ReplayResult{Reason: "model has no lane value"}
	}
	lane := laneB.Int64()
	fn := ct.Fn
	pkgName := fn.Pkg.Pkg.Name()
	inEmu := pkgName == "emu"
	var sb strings.Builder
	fmt.Fprintf(&sb, "package %s\n\nimport (\n\t\"encoding/binary\"\n\t\"fmt\"\n\t\"math\"\n\t\"testing\"\n\n\t\"github.com/sarchlab/mgpusim/v4/amd/insts\"\n", pkgName)
	if !inEmu {
		sb.WriteString("\t\"github.com/sarchlab/mgpusim/v4/amd/emu\"\n")
	}
	sb.WriteString(")\n\nvar _ = math.Pi\nvar _ = binary.LittleEndian\n\n")
	wfNew := "NewWavefront(nil)"
	if !inEmu {
		wfNew = "emu.NewWavefront(nil)"
		sb.WriteString("type gocvState struct {\n\t*emu.Wavefront\n\ti *insts.Inst\n}\n\nfunc (s *gocvState) Inst() *insts.Inst { return s.i }\n\n")
	}
	sb.WriteString("func gocvOp(ot, rt, rc int, iv int64, lit uint32, fl uint64) *insts.Operand {\n\to := &insts.Operand{OperandType: insts.OperandType(ot), RegCount: rc, IntValue: iv, LiteralConstant: lit, FloatValue: math.Float64frombits(fl)}\n\tif ot == insts.RegOperand {\n\t\to.Register = insts.Regs[insts.RegType(rt)]\n\t}\n\treturn o\n}\n\n")
	sb.WriteString("func TestGocvReplay(t *testing.T) {\n\tdefer func() {\n\t\tif r := recover(); r != nil {\n\t\t\tfmt.Printf(\"GOCV_PANIC %v\\n\", r)\n\t\t}\n\t}()\n")
	fmt.Fprintf(&sb, "\twf := %s\n\tinst := insts.NewInst()\n", wfNew)
	rr := &ReplayResult{Inputs: map[string]string{"lane": fmt.Sprint(lane)}, Observed: map[string]string{}}
	regS0, regS101 := w.instsConst("S0"), w.instsConst("S101")
	regV0, regV255 := w.instsConst("V0"), w.instsConst("V255")
	var ops []string
	for opn := range e.Ops {
		ops = append(ops, opn)
	}
	sort.Strings(ops)
	dstIdx := int64(-1)
	for _, opn := range ops {
		ot, ok1 := get(opn + ".type")
		rt, ok2 := get(opn + ".regtype")
		rc, ok3 := get(opn + ".regcount")
		iv, ok4 := get(opn + ".int")
		lit, ok5 := get(opn + ".lit")
		fl, ok6 := get(opn + ".float")
		val, ok7 := get(opn + ".value")
		if !(ok1 && ok2 && ok3 && ok4 && ok5 && ok6 && ok7) {
			return &ReplayResult{Reason: "model lacks descriptor values for operand " + opn}
		}
		isReg := ot.Int64() == w.instsConst("RegOperand")
		rtv := int64(0)
		if isReg {
			rtv = s64(rt)
		}
		fmt.Fprintf(&sb, "\tinst.%s = gocvOp(%d, %d, %d, %d, %d, %d)\n", isaOperandField[opn], ot.Int64(), rtv, s64(rc), s64(iv), lit.Uint64(), fl.Uint64())
		rr.Inputs[opn] = fmt.Sprintf("type=%d regtype=%d regcount=%d int=%d lit=%#x value@lane=%#x", ot.Int64(), rtv, s64(rc), s64(iv), lit.Uint64(), val)
		switch {
		case isReg && rtv >= regV0 && rtv <= regV255:
			idx := rtv - regV0
			if opn == "D" {
				dstIdx = idx
			}
			fmt.Fprintf(&sb, "\tbinary.LittleEndian.PutUint32(wf.VRegFile[%d:], %d)\n", lane*1024+idx*4, new(big.Int).And(val, mask(32)).Uint64())
			if e.Ops[opn] == 64 && idx+1 <= 255 {
				fmt.Fprintf(&sb, "\tbinary.LittleEndian.PutUint32(wf.VRegFile[%d:], %d)\n", lane*1024+(idx+1)*4, new(big.Int).Rsh(val, 32).Uint64())
			}
		case isReg && rtv >= regS0 && rtv <= regS101:
			idx := rtv - regS0
			fmt.Fprintf(&sb, "\tbinary.LittleEndian.PutUint32(wf.SRegFile[%d:], %d)\n", idx*4, new(big.Int).And(val, mask(32)).Uint64())
			if e.Ops[opn] == 64 && idx+1 <= regS101-regS0 {
				fmt.Fprintf(&sb, "\tbinary.LittleEndian.PutUint32(wf.SRegFile[%d:], %d)\n", (idx+1)*4, new(big.Int).Rsh(val, 32).Uint64())
			}
		}
	}
	if dstIdx < 0 {
		return &ReplayResult{Reason: "destination is not a vector register in the model"}
	}
	for _, g := range []string{"SCC", "VCC", "EXEC", "PC", "M0"} {
		v, ok := get(g)
		if !ok {
			return &ReplayResult{Reason: "model lacks " + g}
		}
		rr.Inputs[g] = fmt.Sprintf("%#x", v)
		switch g {
		case "SCC":
			fmt.Fprintf(&sb, "\twf.SetSCC(%d)\n", v.Uint64())
		case "M0":
			fmt.Fprintf(&sb, "\twf.M0 = %d\n", v.Uint64())
		default:
			fmt.Fprintf(&sb, "\twf.Set%s(%d)\n", g, v.Uint64())
		}
	}
	if inEmu {
		sb.WriteString("\twf.inst = inst\n\tvar state InstEmuState = wf\n")
	} else {
		sb.WriteString("\tvar state emu.InstEmuState = &gocvState{wf, inst}\n")
	}
	fmt.Fprintf(&sb, "\tNewALU(nil).%s(state)\n", fn.Name())
	fmt.Fprintf(&sb, "\tfmt.Printf(\"GOCV_OUT VCC %%d\\n\", wf.VCC())\n\tfmt.Printf(\"GOCV_OUT Dcell0 %%d\\n\", binary.LittleEndian.Uint32(wf.VRegFile[%d:]))\n", lane*1024+dstIdx*4)
	if dstIdx+1 <= 255 {
		fmt.Fprintf(&sb, "\tfmt.Printf(\"GOCV_OUT Dcell1 %%d\\n\", binary.LittleEndian.Uint32(wf.VRegFile[%d:]))\n", lane*1024+(dstIdx+1)*4)
	}
	sb.WriteString("\tfmt.Println(\"GOCV_DONE\")\n}\n")
	rr.TestSource = sb.String()
	pkgDir := filepath.Join(o.repo, strings.TrimPrefix(ct.PkgPath, "github.com/sarchlab/mgpusim/v4/"))
	out, err := runOverlayTest(o, pkgDir, sb.String(), ob.Name)
	rr.Output = trunc(out, 3000)
	if err != nil && !strings.Contains(out, "GOCV_") {
		rr.Reason = "replay test did not run: " + err.Error()
		return rr
	}
	if strings.Contains(out, "GOCV_PANIC") {
		rr.Reason = "real handler panicked on the model input"
		return rr
	}
	var pins []string
	var labels []string
	for k := range cti.Inputs {
		labels = append(labels, k)
	}
	sort.Strings(labels)
	for _, k := range labels {
		t := cti.Inputs[k]
		if v, ok := model[t.S]; ok {
			pins = append(pins, fmt.Sprintf("(assert (= %s %s))", t.S, v))
		}
	}
	for _, m := range regexp.MustCompile(`GOCV_OUT (\S+) (\d+)`).FindAllStringSubmatch(out, -1) {
		rr.Observed[m[1]] = m[2]
		n, _ := new(big.Int).SetString(m[2], 10)
		if m[1] == "VCC" {
			bit := new(big.Int).And(new(big.Int).Rsh(n, uint(lane)), big.NewInt(1))
			for name, t := range cti.Results {
				if strings.HasPrefix(name, "accbit.") && strings.Contains(cti.Name, strings.TrimPrefix(name, "accbit.")) {
					pins = append(pins, fmt.Sprintf("(assert (= %s %s))", t.S, BVLit(bit, 64).S))
				}
			}
			continue
		}
		if t, ok := cti.Results[m[1]]; ok {
			pins = append(pins, fmt.Sprintf("(assert (= %s %s))", t.S, BVLit(n, bvWidth(t.Sort)).S))
		}
	}
	q := cti.Query(false)
	q = strings.Replace(q, "(check-sat)", strings.Join(pins, "\n")+"\n(check-sat)", 1)
	v := decide(q, 30, false)
	rr.Inputs["clause"] = cti.Name
	switch v.Answer {
	case "sat":
		rr.Reproduced = true
	case "unsat":
		rr.Reason = "the lane state observed after running the real handler satisfies the clause, or contradicts the engine's semantics (spurious counterexample)"
	default:
		rr.Reason = "solver could not evaluate the clause on the observed lane state"
	}
	return rr
}
