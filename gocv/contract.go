package main

// Contract files (comment-only Go files behind the build tag `verif`) and the
// specification expression language.

import (
	"fmt"
	"math/big"
	"os"
	"path/filepath"
	"strconv"
	"strings"
	"unicode"

	"golang.org/x/tools/go/ssa"
)

type Expr struct {
	Op   string // id int str bool nil call sel index un bin old forall exists
	Name string
	Lit  *big.Int
	Args []*Expr
	Var  string // quantifier variable
	VarT string // quantifier variable type
	Src  string
}

type Clause struct {
	Name string
	E    *Expr
	Src  string
	Line int
}

// CallAssert is an obligation on the state (and arguments arg0, arg1, ...) just before a call site.
type CallAssert struct {
	Callee string
	K      int
	Cl     Clause
	Assume bool // assume-at: an environment assumption stated where its subject exists (listed in the evidence), not proved
}

type Contract struct {
	PkgPath    string
	Key        string // e.g. "(*ALUImpl).runSADDU32", "memRangeOverlap"
	File       string
	Line       int
	Property   string
	IntMode    bool
	NoPanic    bool
	Pure       bool
	Trusted    string
	Requires   []Clause
	Ensures    []Clause
	ModGiven   bool
	Modifies   []*Expr
	MayPanic   []string
	LoopInv    map[int][]Clause
	LoopDec    map[int]*Expr
	LoopMod    map[int][]*Expr
	Unroll     map[int]bool
	CallAssert []CallAssert     // "assert-at call f k name: expr": site obligation before the k-th call of f
	RetAssert  map[int][]Clause // "assert-at return k name: expr": intermediate assertion at the k-th return statement (source order)
	Extra      map[string][]string
	Fn         *ssa.Function
}

func (c *Contract) FullName() string { return shortPkg(c.PkgPath) + "." + c.Key }

func shortPkg(p string) string {
	p = strings.TrimPrefix(p, "github.com/sarchlab/mgpusim/v4/")
	p = strings.TrimPrefix(p, "github.com/sarchlab/")
	return p
}

var directives = map[string]bool{"func": true, "property": true, "arith": true, "requires": true, "ensures": true,
	"modifies": true, "may_panic": true, "nopanic": true, "loop": true, "pure": true, "trusted": true,
	"isa": true, "lanes": true, "crosslane": true, "commutes": true, "assert-at": true, "iface": true,
	"view": true, "lock": true, "note": true, "fp": true, "spec": true, "lemma": true, "assume-iface": true, "inline": true, "implements": true, "case": true, "extern": true, "assume-at": true, "opaque": true, "extern-here": true, "funcvalues": true, "returns": true, "trustframe": true, "track": true}

// parseContractFile reads one zz_contracts_verif.go (or .gspec) file.
func parseContractFile(path, pkgPath string) ([]*Contract, []*SpecFn, error) {
	data, err := os.ReadFile(path)
	if err != nil {
		return nil, nil, err
	}
	type rawClause struct {
		dir, text string
		line      int
	}
	var clauses []rawClause
	for i, ln := range strings.Split(string(data), "\n") {
		t := strings.TrimSpace(ln)
		var body string
		switch {
		case strings.HasPrefix(t, "//@"):
			body = t[3:]
		case strings.HasPrefix(t, "// @"):
			body = t[4:]
		case strings.HasSuffix(path, ".gspec") && !strings.HasPrefix(t, "#") && !strings.HasPrefix(t, "//"):
			body = ln
		default:
			continue
		}
		if strings.TrimSpace(body) == "" {
			continue
		}
		fields := strings.Fields(body)
		first := fields[0]
		if directives[first] && !strings.HasPrefix(body, "   ") {
			rest := strings.TrimSpace(strings.TrimPrefix(strings.TrimSpace(body), first))
			clauses = append(clauses, rawClause{first, rest, i + 1})
		} else if len(clauses) > 0 {
			clauses[len(clauses)-1].text += " " + strings.TrimSpace(body)
		}
	}
	var out []*Contract
	var specs []*SpecFn
	var cur *Contract
	for _, rc := range clauses {
		fail := func(e error) error { return fmt.Errorf("%s:%d: %v", path, rc.line, e) }
		if rc.dir == "extern" || rc.dir == "extern-here" {
			// extern <interface method> :: reason -- a method of a component outside the verified code: assumed to leave
			// the heap of the verified packages unchanged and to return an unconstrained value
			parts := strings.SplitN(rc.text, "::", 2)
			head := strings.Fields(parts[0])
			if len(head) == 0 {
				return nil, nil, fail(fmt.Errorf("extern: name expected"))
			}
			sf := &SpecFn{Name: "extern:" + head[0], File: path, Line: rc.line}
			if rc.dir == "extern-here" {
				// the declaration holds only inside the function whose contract it is part of
				if cur == nil {
					return nil, nil, fail(fmt.Errorf("extern-here before any func"))
				}
				sf.Func = cur.FullName()
			}
			if len(head) > 1 && head[1] == "fresh" {
				sf.Lemma = true // reused flag: reference results are freshly allocated
			}
			if len(head) > 1 && head[1] == "old" {
				sf.PTypes = []string{"old"} // reference results denote objects that existed before the call
			}
			if len(head) > 1 && head[1] == "writes-args" {
				sf.PTypes = []string{"writes-args"} // writes only the variables its pointer arguments point to
			}
			if len(head) > 1 && head[1] == "havoc" {
				sf.PTypes = []string{"havoc"} // may write any memory reachable from its arguments: the whole heap is havocked
			}
			if len(head) > 1 && head[1] == "pure" {
				sf.PTypes = []string{"pure"} // reused field: the result is a function of receiver and arguments
			}
			if len(parts) == 2 {
				sf.Reason = strings.TrimSpace(parts[1])
			}
			specs = append(specs, sf)
			continue
		}
		if rc.dir == "spec" || rc.dir == "lemma" {
			sf, err := parseSpecFn(rc.text)
			if err != nil {
				return nil, nil, fail(err)
			}
			sf.Lemma = rc.dir == "lemma"
			sf.File, sf.Line = path, rc.line
			specs = append(specs, sf)
			continue
		}
		if rc.dir == "func" {
			cur = &Contract{PkgPath: pkgPath, Key: rc.text, File: path, Line: rc.line, LoopInv: map[int][]Clause{},
				LoopDec: map[int]*Expr{}, LoopMod: map[int][]*Expr{}, Unroll: map[int]bool{}, RetAssert: map[int][]Clause{}, Extra: map[string][]string{}}
			out = append(out, cur)
			continue
		}
		if cur == nil {
			return nil, nil, fail(fmt.Errorf("directive %q before any func", rc.dir))
		}
		switch rc.dir {
		case "property":
			cur.Property = rc.text
		case "arith":
			cur.IntMode = rc.text == "int"
		case "nopanic":
			cur.NoPanic = true
		case "pure":
			cur.Pure = true
		case "trusted":
			cur.Trusted = strings.Trim(rc.text, "\"")
			if cur.Trusted == "" {
				cur.Trusted = "unspecified"
			}
		case "requires", "ensures":
			name, src := splitLabel(rc.text)
			e, err := parseExpr(src)
			if err != nil {
				return nil, nil, fail(err)
			}
			cl := Clause{Name: name, E: e, Src: src, Line: rc.line}
			if rc.dir == "requires" {
				if cl.Name == "" {
					cl.Name = fmt.Sprintf("r%d", len(cur.Requires))
				}
				cur.Requires = append(cur.Requires, cl)
			} else {
				if cl.Name == "" {
					cl.Name = fmt.Sprintf("e%d", len(cur.Ensures))
				}
				cur.Ensures = append(cur.Ensures, cl)
			}
		case "modifies":
			cur.ModGiven = true
			if rc.text != "nothing" {
				for _, part := range splitTop(rc.text, ',') {
					e, err := parseExpr(part)
					if err != nil {
						return nil, nil, fail(err)
					}
					cur.Modifies = append(cur.Modifies, e)
				}
			}
		case "may_panic":
			cur.MayPanic = append(cur.MayPanic, rc.text)
		case "assert-at", "assume-at":
			f := strings.Fields(rc.text)
			if len(f) >= 4 && f[0] == "call" {
				// assert-at call <callee substring> <k> name: expr   (k-th call, in source order, whose callee name contains the substring)
				k, err := strconv.Atoi(f[2])
				if err != nil {
					return nil, nil, fail(err)
				}
				rest := strings.TrimSpace(rc.text)
				for _, w := range f[:3] {
					rest = strings.TrimSpace(strings.TrimPrefix(rest, w))
				}
				name, src := splitLabel(rest)
				e, err := parseExpr(src)
				if err != nil {
					return nil, nil, fail(err)
				}
				if name == "" {
					name = "a"
				}
				cur.CallAssert = append(cur.CallAssert, CallAssert{Callee: f[1], K: k, Cl: Clause{Name: name, E: e, Src: src, Line: rc.line}, Assume: rc.dir == "assume-at"})
				continue
			}
			if len(f) < 3 || f[0] != "return" {
				return nil, nil, fail(fmt.Errorf("assert-at: expected 'return <k> name: expr' or 'call <callee> <k> name: expr'"))
			}
			k, err := strconv.Atoi(f[1])
			if err != nil {
				return nil, nil, fail(err)
			}
			rest := strings.TrimSpace(strings.TrimPrefix(strings.TrimSpace(strings.TrimPrefix(strings.TrimSpace(rc.text), f[0])), f[1]))
			name, src := splitLabel(rest)
			e, err := parseExpr(src)
			if err != nil {
				return nil, nil, fail(err)
			}
			if name == "" {
				name = fmt.Sprintf("a%d", len(cur.RetAssert[k]))
			}
			cur.RetAssert[k] = append(cur.RetAssert[k], Clause{Name: name, E: e, Src: src, Line: rc.line})
		case "loop":
			f := strings.Fields(rc.text)
			if len(f) < 2 {
				return nil, nil, fail(fmt.Errorf("bad loop directive"))
			}
			k, err := strconv.Atoi(f[0])
			if err != nil {
				return nil, nil, fail(err)
			}
			rest := strings.TrimSpace(strings.TrimPrefix(strings.TrimSpace(strings.TrimPrefix(rc.text, f[0])), f[1]))
			switch f[1] {
			case "unroll":
				cur.Unroll[k] = true
			case "invariant":
				name, src := splitLabel(rest)
				e, err := parseExpr(src)
				if err != nil {
					return nil, nil, fail(err)
				}
				if name == "" {
					name = fmt.Sprintf("inv%d", len(cur.LoopInv[k]))
				}
				cur.LoopInv[k] = append(cur.LoopInv[k], Clause{Name: name, E: e, Src: src, Line: rc.line})
			case "decreases":
				e, err := parseExpr(rest)
				if err != nil {
					return nil, nil, fail(err)
				}
				cur.LoopDec[k] = e
			case "modifies":
				if _, ok := cur.LoopMod[k]; !ok {
					cur.LoopMod[k] = []*Expr{}
				}
				if rest != "nothing" {
					for _, part := range splitTop(rest, ',') {
						e, err := parseExpr(part)
						if err != nil {
							return nil, nil, fail(err)
						}
						cur.LoopMod[k] = append(cur.LoopMod[k], e)
					}
				}
			default:
				return nil, nil, fail(fmt.Errorf("bad loop directive %q", f[1]))
			}
		default:
			cur.Extra[rc.dir] = append(cur.Extra[rc.dir], rc.text)
		}
	}
	return out, specs, nil
}

func splitLabel(s string) (string, string) {
	// "name: expr" where name is an identifier (and not part of a "::")
	for i, r := range s {
		if r == ':' {
			if i+1 < len(s) && s[i+1] == ':' {
				return "", s
			}
			name := strings.TrimSpace(s[:i])
			if isIdent(name) {
				return name, strings.TrimSpace(s[i+1:])
			}
			return "", s
		}
		if !(unicode.IsLetter(r) || unicode.IsDigit(r) || r == '_' || r == '.' || r == ' ') {
			return "", s
		}
	}
	return "", s
}

func isIdent(s string) bool {
	if s == "" {
		return false
	}
	for i, r := range s {
		if !(unicode.IsLetter(r) || r == '_' || r == '.' || (i > 0 && unicode.IsDigit(r))) {
			return false
		}
	}
	return true
}

func splitTop(s string, sep rune) []string {
	var out []string
	depth := 0
	last := 0
	for i, r := range s {
		switch r {
		case '(', '[':
			depth++
		case ')', ']':
			depth--
		default:
			if r == sep && depth == 0 {
				out = append(out, strings.TrimSpace(s[last:i]))
				last = i + 1
			}
		}
	}
	out = append(out, strings.TrimSpace(s[last:]))
	return out
}

// ---- spec functions -------------------------------------------------------------

type SpecFn struct {
	Name   string
	Params []string
	PTypes []string
	Ret    string
	Body   *Expr
	Lemma  bool
	Reason string // extern declarations: why the method is outside the verified code
	Func   string // extern-here: the function under contract the declaration is limited to
	File   string
	Line   int
}

// "fn name(a T, b T) T = expr"
func parseSpecFn(s string) (*SpecFn, error) {
	s = strings.TrimSpace(strings.TrimPrefix(strings.TrimSpace(s), "fn"))
	lp := strings.Index(s, "(")
	if lp < 0 {
		return nil, fmt.Errorf("spec fn: missing (")
	}
	depth, rp := 0, -1
	for i := lp; i < len(s); i++ {
		if s[i] == '(' {
			depth++
		}
		if s[i] == ')' {
			depth--
			if depth == 0 {
				rp = i
				break
			}
		}
	}
	if rp < 0 {
		return nil, fmt.Errorf("spec fn: missing )")
	}
	sf := &SpecFn{Name: strings.TrimSpace(s[:lp])}
	for _, p := range splitTop(s[lp+1:rp], ',') {
		if p == "" {
			continue
		}
		f := strings.Fields(p)
		sf.Params = append(sf.Params, f[0])
		if len(f) > 1 {
			sf.PTypes = append(sf.PTypes, f[1])
		} else {
			sf.PTypes = append(sf.PTypes, "")
		}
	}
	rest := s[rp+1:]
	eq := strings.Index(rest, "=")
	if eq < 0 {
		return nil, fmt.Errorf("spec fn: missing =")
	}
	sf.Ret = strings.TrimSpace(rest[:eq])
	e, err := parseExpr(rest[eq+1:])
	if err != nil {
		return nil, err
	}
	sf.Body = e
	return sf, nil
}

// ---- expression parser ------------------------------------------------------------

type tok struct {
	kind string // id int str op eof
	text string
}

func lex(s string) ([]tok, error) {
	var out []tok
	i := 0
	ops := []string{"<==>", "==>", "::", "&&", "||", "==", "!=", "<=", ">=", "<<", ">>", "&^",
		"+", "-", "*", "/", "%", "&", "|", "^", "<", ">", "!", "(", ")", "[", "]", ",", ".", ":", "?"}
	for i < len(s) {
		c := s[i]
		switch {
		case c == ' ' || c == '\t' || c == '\n':
			i++
		case c == '"':
			j := i + 1
			for j < len(s) && s[j] != '"' {
				j++
			}
			if j >= len(s) {
				return nil, fmt.Errorf("unterminated string")
			}
			out = append(out, tok{"str", s[i+1 : j]})
			i = j + 1
		case c >= '0' && c <= '9':
			j := i
			for j < len(s) && (isAlnum(s[j]) || s[j] == '_') {
				j++
			}
			out = append(out, tok{"int", strings.ReplaceAll(s[i:j], "_", "")})
			i = j
		case isAlpha(c):
			j := i
			for j < len(s) && (isAlnum(s[j]) || s[j] == '_' || s[j] == '$') {
				j++
			}
			out = append(out, tok{"id", s[i:j]})
			i = j
		default:
			matched := false
			for _, op := range ops {
				if strings.HasPrefix(s[i:], op) {
					out = append(out, tok{"op", op})
					i += len(op)
					matched = true
					break
				}
			}
			if !matched {
				return nil, fmt.Errorf("unexpected character %q in %q", c, s)
			}
		}
	}
	out = append(out, tok{"eof", ""})
	return out, nil
}

func isAlpha(c byte) bool {
	return c == '_' || c == '$' || (c >= 'a' && c <= 'z') || (c >= 'A' && c <= 'Z')
}
func isAlnum(c byte) bool { return isAlpha(c) || (c >= '0' && c <= '9') }

type parser struct {
	toks []tok
	pos  int
	src  string
}

func parseExpr(s string) (*Expr, error) {
	toks, err := lex(s)
	if err != nil {
		return nil, err
	}
	p := &parser{toks: toks, src: s}
	var e *Expr
	func() {
		defer func() {
			if r := recover(); r != nil {
				err = fmt.Errorf("parse error in %q: %v", s, r)
			}
		}()
		e = p.expr(0)
		if p.peek().kind != "eof" {
			panic(fmt.Sprintf("unexpected %q", p.peek().text))
		}
	}()
	if e != nil {
		e.Src = s
	}
	return e, err
}

func (p *parser) peek() tok { return p.toks[p.pos] }
func (p *parser) next() tok { t := p.toks[p.pos]; p.pos++; return t }
func (p *parser) expect(op string) {
	t := p.next()
	if t.text != op {
		panic(fmt.Sprintf("expected %q, got %q", op, t.text))
	}
}

var binPrec = map[string]int{"<==>": 1, "==>": 2, "||": 3, "&&": 4,
	"==": 5, "!=": 5, "<": 5, "<=": 5, ">": 5, ">=": 5,
	"+": 6, "-": 6, "|": 6, "^": 6,
	"*": 7, "/": 7, "%": 7, "<<": 7, ">>": 7, "&": 7, "&^": 7}

func (p *parser) expr(minPrec int) *Expr {
	t := p.peek()
	if t.kind == "id" && (t.text == "forall" || t.text == "exists") {
		p.next()
		v := p.next()
		if v.kind != "id" {
			panic("quantifier variable expected")
		}
		ty := ""
		if p.peek().kind == "id" {
			ty = p.next().text
		}
		p.expect("::")
		body := p.expr(0)
		return &Expr{Op: t.text, Var: v.text, VarT: ty, Args: []*Expr{body}}
	}
	lhs := p.unary()
	for {
		t := p.peek()
		prec, ok := binPrec[t.text]
		if t.kind != "op" || !ok || prec < minPrec {
			return lhs
		}
		p.next()
		var rhs *Expr
		if t.text == "==>" {
			rhs = p.expr(prec) // right associative
		} else {
			rhs = p.expr(prec + 1)
		}
		lhs = &Expr{Op: "bin", Name: t.text, Args: []*Expr{lhs, rhs}}
	}
}

func (p *parser) unary() *Expr {
	t := p.peek()
	if t.kind == "op" && (t.text == "!" || t.text == "-" || t.text == "^") {
		p.next()
		return &Expr{Op: "un", Name: t.text, Args: []*Expr{p.unary()}}
	}
	return p.postfix(p.primary())
}

func (p *parser) primary() *Expr {
	t := p.next()
	switch t.kind {
	case "int":
		v, ok := new(big.Int).SetString(t.text, 0)
		if !ok {
			panic("bad integer " + t.text)
		}
		return &Expr{Op: "int", Lit: v}
	case "str":
		return &Expr{Op: "str", Name: t.text}
	case "id":
		switch t.text {
		case "true", "false":
			return &Expr{Op: "bool", Name: t.text}
		case "nil":
			return &Expr{Op: "nil"}
		case "forall", "exists":
			p.pos--
			return p.expr(0)
		}
		return &Expr{Op: "id", Name: t.text}
	case "op":
		if t.text == "(" {
			e := p.expr(0)
			p.expect(")")
			return e
		}
	}
	panic(fmt.Sprintf("unexpected %q", t.text))
}

func (p *parser) postfix(e *Expr) *Expr {
	for {
		t := p.peek()
		if t.kind != "op" {
			return e
		}
		switch t.text {
		case ".":
			p.next()
			f := p.next()
			if f.kind != "id" {
				panic("field name expected")
			}
			e = &Expr{Op: "sel", Name: f.text, Args: []*Expr{e}}
		case "[":
			p.next()
			if p.peek().text == "*" && p.toks[p.pos+1].text == "]" {
				p.next()
				p.next()
				e = &Expr{Op: "allelems", Args: []*Expr{e}}
				continue
			}
			if p.peek().text == "*" && p.toks[p.pos+1].text == "cap" && p.toks[p.pos+2].text == "]" {
				// x[*cap]: every element of the backing array up to the capacity (what append may write)
				p.next()
				p.next()
				p.next()
				e = &Expr{Op: "allelems", Name: "cap", Args: []*Expr{e}}
				continue
			}
			var lo *Expr
			if p.peek().text != ":" {
				lo = p.expr(0)
			}
			if p.peek().text == ":" {
				p.next()
				var hi *Expr
				if p.peek().text != "]" {
					hi = p.expr(0)
				}
				p.expect("]")
				e = &Expr{Op: "slice", Args: []*Expr{e, lo, hi}}
			} else {
				p.expect("]")
				e = &Expr{Op: "index", Args: []*Expr{e, lo}}
			}
		case "(":
			if e.Op != "id" && e.Op != "sel" {
				return e
			}
			p.next()
			var args []*Expr
			for p.peek().text != ")" {
				args = append(args, p.expr(0))
				if p.peek().text == "," {
					p.next()
				}
			}
			p.expect(")")
			if e.Op == "id" {
				if e.Name == "old" && len(args) == 1 {
					e = &Expr{Op: "old", Args: args}
				} else {
					e = &Expr{Op: "call", Name: e.Name, Args: args}
				}
			} else {
				// method-style spec call: x.f(args) => f(x, args)
				e = &Expr{Op: "call", Name: e.Name, Args: append([]*Expr{e.Args[0]}, args...)}
			}
		default:
			return e
		}
	}
}

// loadContracts collects every contract file under the repository.
func loadContracts(repo string) ([]*Contract, []*SpecFn, error) {
	var all []*Contract
	var specs []*SpecFn
	err := filepath.Walk(repo, func(path string, info os.FileInfo, err error) error {
		if err != nil {
			return nil
		}
		if info.IsDir() && (info.Name() == ".git" || info.Name() == "node_modules") {
			return filepath.SkipDir
		}
		if info.Name() != "zz_contracts_verif.go" {
			return nil
		}
		rel, _ := filepath.Rel(repo, filepath.Dir(path))
		pkgPath := "github.com/sarchlab/mgpusim/v4/" + filepath.ToSlash(rel)
		cs, sp, err := parseContractFile(path, pkgPath)
		if err != nil {
			return err
		}
		all = append(all, cs...)
		specs = append(specs, sp...)
		return nil
	})
	return all, specs, err
}
