package main

// C07, byte-level half of the InstEmuState contract: ReadReg / WriteReg /
// ReadOperandBytes / WriteOperandBytes against the array-of-cells view.

import (
	"fmt"
	"go/types"
)

type accDesc struct {
	isReg      Term // operand methods: OperandType == RegOperand; reg methods: true
	rt, bs, rc Term
	regNonNil  Term
	constVal   Term // value of a non-register operand (64-bit)
	op         Term
}

func (f *Frame) accessDesc(st *State) accDesc {
	c := f.c
	var d accDesc
	d.isReg = TTrue
	for _, p := range f.fn.Params {
		switch p.Name() {
		case "operand":
			od := c.operandDesc(st, f.env[p].T)
			w := c.W
			d.op = f.env[p].T
			d.isReg = Eq(od.ot, BVLitI(w.instsConst("RegOperand"), 64))
			d.rt, d.bs, d.rc = od.rt, od.bs, od.rc
			d.regNonNil = Neq(od.reg, TNull)
			f32 := c.UF("cvt.f64.f32", SBV(32), od.flt)
			d.constVal = Ite(Eq(od.ot, BVLitI(w.instsConst("IntOperand"), 64)), od.intv,
				Ite(Eq(od.ot, BVLitI(w.instsConst("FloatOperand"), 64)), ZeroExt(32, f32), ZeroExt(32, od.lit)))
		case "reg":
			reg := f.env[p].T
			rs := c.instsType("Reg").Underlying().(*types.Struct)
			for i := 0; i < rs.NumFields(); i++ {
				switch rs.Field(i).Name() {
				case "RegType":
					d.rt = c.Def("opd.rt", c.load(st, RefSub(reg, i), rs.Field(i).Type()).T)
				case "ByteSize":
					d.bs = c.known(c.Def("opd.bs", c.load(st, RefSub(reg, i), rs.Field(i).Type()).T))
				}
			}
			d.regNonNil = Neq(reg, TNull)
		case "regCount":
			d.rc = f.env[p].T
		}
	}
	return d
}

func (c *Ctx) byteOf(v Term, j int) Term { return Extract(8*j+7, 8*j, v) }

// cellByte: byte (j mod 4) of the 32-bit word w, j symbolic.
func cellByte(w Term, j Term) Term {
	sh := BVMul(ZeroExt(32-2, Extract(1, 0, j)), BVLitI(8, 32))
	return Extract(7, 0, BVLshr(w, sh))
}

// bytesWF: descriptor well-formedness for the byte-level methods.
func (c *Ctx) bytesWF(d accDesc, view *regView, write bool) Term {
	w := c.W
	k := func(n string) Term { return BVLitI(w.instsConst(n), 64) }
	nb := raw(fmt.Sprintf("(isa.nb %s %s)", d.bs.S, d.rc.S), SBV(64))
	isV := raw("(isa.isV "+d.rt.S+")", SBool)
	isS := raw("(isa.isS "+d.rt.S+")", SBool)
	defd := raw(fmt.Sprintf("(isa.wrdefined %s %s %s)", d.rt.S, d.bs.S, d.rc.S), SBool)
	cells := BVUDiv(BVAdd(nb, BVLitI(3, 64)), BVLitI(4, 64))
	inFile := And(Implies(isV, BVSle(BVAdd(BVSub(d.rt, k("V0")), cells), view.nV)),
		Implies(isS, BVSle(BVAdd(BVSub(d.rt, k("S0")), cells), view.nS)))
	// general registers: 1..16 dwords; special registers: the widths the contract defines
	genOK := And(Or(isV, isS), BVSle(BVLitI(0, 64), d.rc), BVSle(d.rc, BVLitI(16, 64)))
	// special registers: SCC/VCC/EXEC/M0 are single operands; only the LO halves form pairs
	single := Or(Eq(d.rt, k("SCC")), Eq(d.rt, k("VCC")), Eq(d.rt, k("EXEC")), Eq(d.rt, k("M0")), Eq(d.rt, k("VCCHI")))
	regOK := And(d.regNonNil, Eq(d.bs, raw("(isa.regbs "+d.rt.S+")", SBV(64))), Or(genOK, And(Not(isV), Not(isS), defd, BVSle(BVLitI(0, 64), d.rc), BVSle(d.rc, BVLitI(2, 64)),
		Implies(single, BVSle(d.rc, BVLitI(1, 64))))), inFile)
	c.W.noteAssumed("register descriptors come from the insts.Regs table (ByteSize is a function of RegType)")
	return Implies(d.isReg, regOK)
}

func implBytesPre(f *Frame, st *State, ct *Contract, method string, view *regView) {
	c := f.c
	d := f.accessDesc(st)
	write := method == "WriteReg" || method == "WriteOperandBytes"
	c.Assume(TTrue, c.bytesWF(d, view, write), "register descriptor well-formed and inside the wavefront's windows")
	if write {
		c.Assume(TTrue, d.isReg, "destination is a register operand")
	}
	if d.op.S != "" {
		od := c.operandDesc(st, d.op)
		w := c.W
		okKinds := Or(d.isReg, Eq(od.ot, BVLitI(w.instsConst("IntOperand"), 64)), Eq(od.ot, BVLitI(w.instsConst("FloatOperand"), 64)),
			Eq(od.ot, BVLitI(w.instsConst("LiteralConstant"), 64)))
		c.Assume(TTrue, And(Neq(d.op, TNull), okKinds, c.floatOperandWF(od)), "operand kind is one the decoder produces")
	}
	nb := raw(fmt.Sprintf("(isa.nb %s %s)", d.bs.S, d.rc.S), SBV(64))
	for _, p := range f.fn.Params {
		switch p.Name() {
		case "laneID":
			c.Assume(TTrue, And(BVSle(BVLitI(0, 64), f.env[p].T), BVSlt(f.env[p].T, BVLitI(64, 64))), "lane id in 0..63")
		case "data":
			// callers pass exactly the bytes of the register operand
			c.Assume(TTrue, Eq(f.env[p].Len, nb), "len(data) equals the operand's byte size")
		case "byteCount":
			c.Assume(TTrue, And(BVSle(BVLitI(0, 64), f.env[p].T), Implies(Not(d.isReg), BVSle(f.env[p].T, BVLitI(8, 64)))), "byteCount is non-negative (at most 8 for constants)")
		}
	}
}

func implBytesPost(f *Frame, rst *State, ct *Contract, post *Scope, method string, view *regView) {
	c := f.c
	w := c.W
	entry := f.entry
	pos := w.fset.Position(f.fn.Pos())
	d := f.accessDesc(entry)
	k := func(n string) Term { return BVLitI(w.instsConst(n), 64) }
	nb := c.Def("nb", raw(fmt.Sprintf("(isa.nb %s %s)", d.bs.S, d.rc.S), SBV(64)))
	isV := raw("(isa.isV "+d.rt.S+")", SBool)
	isS := raw("(isa.isS "+d.rt.S+")", SBool)
	var lane, byteCount Term
	var data *Val
	for _, p := range f.fn.Params {
		switch p.Name() {
		case "laneID":
			lane = f.env[p].T
		case "byteCount":
			byteCount = f.env[p].T
		case "data":
			data = f.env[p]
		}
	}
	inputs := f.inputTerms()
	inputs["regtype"], inputs["bytesize"], inputs["regcount"] = d.rt, d.bs, d.rc
	for _, g := range []string{"G_scc", "G_vcc", "G_exec", "G_m0"} {
		inputs[g] = c.ghost(entry, g)
	}
	u8 := types.Typ[types.Uint8]
	sIdx := BVSub(d.rt, k("S0"))
	vIdx := BVSub(d.rt, k("V0"))
	// special registers through the 64-bit model value
	spec64 := raw(fmt.Sprintf("(isa.rdreg %s %s %s %s %s)", d.rt.S, d.bs.S, d.rc.S, lane.S, c.ghostArgs(entry)), SBV(64))
	switch method {
	case "ReadReg", "ReadOperandBytes":
		res := post.vars["result"]
		j := c.Fresh("sk.byte", SBV(64))
		wantLen := nb
		if method == "ReadOperandBytes" {
			wantLen = Ite(d.isReg, Ite(BVSlt(byteCount, nb), byteCount, nb), byteCount)
		}
		o := c.Oblige("implements", method+".len", rst.reach, Eq(res.Len, wantLen), pos, "the result has exactly the operand's byte size (capped by byteCount)")
		o.Inputs = inputs
		o = c.Oblige("implements", method+".fresh", rst.reach, ILe(IntLitI(birthBase), RefRoot(res.Base)), pos,
			"the returned bytes live in a freshly allocated array: no earlier result, register file or other buffer aliases them")
		o.Inputs = inputs
		got := c.load(rst, RefElem(res.Base, BVAdd(res.Off, j)), u8).T
		inRes := And(BVSle(BVLitI(0, 64), j), BVSlt(j, res.Len))
		cellJ := BVUDiv(j, BVLitI(4, 64))
		wantS := cellByte(view.sgpr(entry, BVAdd(sIdx, cellJ)), j)
		wantV := cellByte(view.vgpr(entry, lane, BVAdd(vIdx, cellJ)), j)
		// byte j of the 64-bit special/constant value
		val64 := spec64
		if d.constVal.S != "" {
			val64 = Ite(d.isReg, spec64, d.constVal)
		}
		wantX := Extract(7, 0, BVLshr(val64, BVMul(j, BVLitI(8, 64))))
		want := Ite(And(d.isReg, isS), wantS, Ite(And(d.isReg, isV), wantV, wantX))
		o = c.Oblige("implements", method+".bytes", And(rst.reach, inRes), Eq(got, want), pos,
			"byte j of the result is byte j of the operand's cells (little endian)")
		o.Inputs = inputs
		f.viewUnchanged(rst, view, pos, inputs, method)
	case "WriteReg", "WriteOperandBytes":
		skK, skL := c.Fresh("sk.reg", SBV(64)), c.Fresh("sk.lane", SBV(64))
		inS := And(BVSle(BVLitI(0, 64), skK), BVSlt(skK, view.nS))
		inV := And(BVSle(BVLitI(0, 64), skK), BVSlt(skK, view.nV), BVSle(BVLitI(0, 64), skL), BVSlt(skL, BVLitI(64, 64)))
		ncell := BVUDiv(nb, BVLitI(4, 64))
		dataWord := func(rel Term) Term { // LE32(data[4*rel ..]) in the entry state
			return c.le32(entry, data.Base, BVAdd(data.Off, BVMul(BVLitI(4, 64), rel)))
		}
		hitS := And(d.isReg, isS, BVSle(sIdx, skK), BVSlt(skK, BVAdd(sIdx, ncell)))
		o := c.Oblige("implements", method+".sgpr", And(rst.reach, inS),
			Eq(view.sgpr(rst, skK), Ite(hitS, dataWord(BVSub(skK, sIdx)), view.sgpr(entry, skK))), pos,
			"the written scalar cells hold the data words; every other scalar cell is unchanged")
		o.Inputs = inputs
		hitV := And(d.isReg, isV, Eq(skL, lane), BVSle(vIdx, skK), BVSlt(skK, BVAdd(vIdx, ncell)))
		o = c.Oblige("implements", method+".vgpr", And(rst.reach, inV),
			Eq(view.vgpr(rst, skL, skK), Ite(hitV, dataWord(BVSub(skK, vIdx)), view.vgpr(entry, skL, skK))), pos,
			"the written vector cells of this lane hold the data words; every other cell of every lane is unchanged")
		o.Inputs = inputs
		// special registers: value = little-endian data (zero-padded to 8 bytes)
		var v64 Term
		for i := int64(7); i >= 0; i-- {
			b := Ite(BVSlt(BVLitI(i, 64), data.Len), c.load(entry, RefElem(data.Base, BVAdd(data.Off, BVLitI(i, 64))), u8).T, BVLitI(0, 8))
			if i == 7 {
				v64 = b
			} else {
				v64 = Concat(v64, b)
			}
		}
		v64 = c.Def("data64", v64)
		model := entry.clone()
		args := fmt.Sprintf("%s %s %s %s %s", d.rt.S, d.bs.S, d.rc.S, lane.S, v64.S)
		for _, g := range []struct{ name, fn, sort string }{{"G_scc", "isa.wrScc", SBV(8)}, {"G_vcc", "isa.wrVcc", SBV(64)}, {"G_exec", "isa.wrExec", SBV(64)}, {"G_m0", "isa.wrM0", SBV(32)}} {
			want := raw(fmt.Sprintf("(%s %s %s)", g.fn, args, c.ghost(model, g.name).S), g.sort)
			o = c.Oblige("implements", method+"."+g.name[2:], rst.reach, Eq(view.scal[g.name](rst), want), pos,
				g.name[2:]+" holds what the interface contract prescribes (pairs and halves alias exactly)")
			o.Inputs = inputs
		}
		o = c.Oblige("implements", method+".pc", rst.reach, Eq(view.scal["G_pc"](rst), view.scal["G_pc"](entry)), pos, "PC unchanged")
		o.Inputs = inputs
		c.Oblige("implements", method+".wf", rst.reach, view.wf(c, rst), pos, "register store remains well-formed")
		if view.others != nil {
			jb := c.Fresh("sk.byte", SBV(64))
			sOK, vOK := view.others(entry, rst, jb)
			o = c.Oblige("implements", method+".otherwf.sfile", rst.reach, sOK, pos, "bytes of the shared scalar file outside this wavefront's window are unchanged")
			o.Inputs = inputs
			o = c.Oblige("implements", method+".otherwf.vfile", rst.reach, vOK, pos, "bytes of the shared vector file outside this wavefront's lane windows are unchanged")
			o.Inputs = inputs
		}
		// the caller's data is not modified
		jd := c.Fresh("sk.data", SBV(64))
		o = c.Oblige("implements", method+".data", And(rst.reach, BVSle(BVLitI(0, 64), jd), BVSlt(jd, data.Len), ILt(RefRoot(data.Base), IntLitI(birthBase)),
			Neq(data.Base, f.viewBases(entry, view)[0]), Neq(data.Base, f.viewBases(entry, view)[1])),
			Eq(c.load(rst, RefElem(data.Base, BVAdd(data.Off, jd)), u8).T, c.load(entry, RefElem(data.Base, BVAdd(data.Off, jd)), u8).T), pos,
			"the caller's data buffer is left unchanged (when it is not itself part of a register file)")
		o.Inputs = inputs
	}
}

// viewBases: backing arrays of the scalar and vector register files.
func (f *Frame) viewBases(st *State, view *regView) [2]Term {
	if view.bases != nil {
		return view.bases(st)
	}
	return [2]Term{TNull, TNull}
}
