package main

// Abstract architectural state (ghost) and the InstEmuState interface contract
// (DESIGN §3.1), plus the ISA table binding for C03.
//
// Ghost state:  G_sgpr : idx -> bv32      G_vgpr : lane -> idx -> bv32
//               G_scc : bv8   G_vcc, G_exec, G_pc : bv64   G_m0 : bv32
// The model follows the array-of-cells view that C07 proves for the two
// register stores; ALU handlers are verified against it.

import (
	"fmt"
	"go/constant"
	"go/types"
	"math"
	"os"
	"strings"

	"golang.org/x/tools/go/ssa"
)

const (
	sortSGPR = "(Array (_ BitVec 64) (_ BitVec 32))"
	sortVGPR = "(Array (_ BitVec 64) (Array (_ BitVec 64) (_ BitVec 32)))"
)

var ghostSorts = map[string]string{"G_sgpr": sortSGPR, "G_vgpr": sortVGPR, "G_scc": "(_ BitVec 8)", "G_vcc": "(_ BitVec 64)",
	"G_exec": "(_ BitVec 64)", "G_pc": "(_ BitVec 64)", "G_m0": "(_ BitVec 32)"}
var ghostOrder = []string{"G_sgpr", "G_vgpr", "G_scc", "G_vcc", "G_exec", "G_pc", "G_m0"}

const instsPath = "github.com/sarchlab/mgpusim/v4/amd/insts"

func (w *World) instsConst(name string) int64 {
	p := w.pkgs[instsPath]
	if p == nil {
		panic(unsupported("package insts not loaded"))
	}
	m, ok := p.Members[name].(*ssa.NamedConst)
	if !ok {
		panic(unsupported("insts.%s is not a constant", name))
	}
	v, _ := constant.Int64Val(constant.ToInt(m.Value.Value))
	return v
}

func (c *Ctx) ghost(st *State, name string) Term {
	if t, ok := st.mem[name]; ok {
		return t
	}
	if t, ok := c.memInit[name]; ok {
		st.mem[name] = t
		return t
	}
	n := sanitize(name + "0")
	c.decls = append(c.decls, fmt.Sprintf("(declare-const %s %s)", n, ghostSorts[name]))
	t := raw(n, ghostSorts[name])
	c.memInit[name] = t
	c.memSort[name] = ghostSorts[name]
	st.mem[name] = t
	return t
}

// isaPrelude defines the interface-contract functions once per query context.
func (c *Ctx) isaPrelude() {
	if c.assumed["isa.prelude"] {
		return
	}
	c.assumed["isa.prelude"] = true
	if c.intMode {
		panic(unsupported("InstEmuState model in arith int mode"))
	}
	w := c.W
	k := func(n string) string { return BVLitI(w.instsConst(n), 64).S }
	b := func(i int64) string { return BVLitI(i, 64).S }
	state := "(S " + sortSGPR + ") (V " + sortVGPR + ") (scc (_ BitVec 8)) (vcc (_ BitVec 64)) (exec (_ BitVec 64)) (m0 (_ BitVec 32))"
	desc := "(rt (_ BitVec 64)) (bs (_ BitVec 64)) (rc (_ BitVec 64)) (lane (_ BitVec 64))"
	c.Raw("(define-fun isa.nb ((bs (_ BitVec 64)) (rc (_ BitVec 64))) (_ BitVec 64) (ite (bvsge rc " + b(2) + ") (bvmul bs rc) bs))")
	c.Raw("(define-fun isa.isV ((rt (_ BitVec 64))) Bool (and (bvsge rt " + k("V0") + ") (bvsle rt " + k("V255") + ")))")
	c.Raw("(define-fun isa.isS ((rt (_ BitVec 64))) Bool (and (bvsge rt " + k("S0") + ") (bvsle rt " + k("S101") + ")))")
	c.Raw("(declare-fun isa.unk ((_ BitVec 64) (_ BitVec 64) (_ BitVec 64)) (_ BitVec 64))")
	// ByteSize column of the insts.Regs table for the register kinds the contract covers
	c.Raw("(define-fun isa.regbs ((rt (_ BitVec 64))) (_ BitVec 64) (ite (or (= rt " + k("VCC") + ") (= rt " + k("EXEC") + ")) " + b(8) + " (ite (= rt " + k("SCC") + ") " + b(1) + " " + b(4) + ")))")
	z32 := "((_ zero_extend 32) %s)"
	lo := "((_ extract 31 0) %s)"
	hi := "((_ extract 63 32) %s)"
	// read of a register operand: 32-bit when the operand is 4 bytes wide, else the low 64 bits
	c.Raw("(define-fun isa.rdreg (" + desc + " " + state + ") (_ BitVec 64)\n" +
		" (let ((nb (isa.nb bs rc)))\n" +
		" (ite (isa.isV rt) (let ((i (bvsub rt " + k("V0") + "))) (ite (= nb " + b(4) + ") " + fmt.Sprintf(z32, "(select (select V lane) i)") +
		" (concat (select (select V lane) (bvadd i " + b(1) + ")) (select (select V lane) i))))\n" +
		" (ite (isa.isS rt) (let ((i (bvsub rt " + k("S0") + "))) (ite (= nb " + b(4) + ") " + fmt.Sprintf(z32, "(select S i)") +
		" (concat (select S (bvadd i " + b(1) + ")) (select S i))))\n" +
		" (ite (= rt " + k("SCC") + ") ((_ zero_extend 56) scc)\n" +
		" (ite (= rt " + k("VCC") + ") vcc\n" +
		" (ite (= rt " + k("VCCLO") + ") (ite (= rc " + b(1) + ") " + fmt.Sprintf(z32, fmt.Sprintf(lo, "vcc")) + " vcc)\n" +
		" (ite (= rt " + k("VCCHI") + ") (ite (= rc " + b(1) + ") " + fmt.Sprintf(z32, fmt.Sprintf(hi, "vcc")) + " vcc)\n" +
		" (ite (= rt " + k("EXEC") + ") exec\n" +
		" (ite (= rt " + k("EXECLO") + ") (ite (= rc " + b(2) + ") exec " + fmt.Sprintf(z32, fmt.Sprintf(lo, "exec")) + ")\n" +
		" (ite (= rt " + k("M0") + ") " + fmt.Sprintf(z32, "m0") + "\n" +
		" (isa.unk rt rc lane))))))))))))")
	// register kinds a write is defined for
	c.Raw("(define-fun isa.wrdefined ((rt (_ BitVec 64)) (bs (_ BitVec 64)) (rc (_ BitVec 64))) Bool\n" +
		" (let ((nb (isa.nb bs rc)))\n" +
		" (or (and (or (isa.isV rt) (isa.isS rt)) (or (= nb " + b(4) + ") (= nb " + b(8) + ")))\n" +
		"  (= rt " + k("SCC") + ") (= rt " + k("VCC") + ") (and (= rt " + k("VCCLO") + ") (or (= rc " + b(1) + ") (= rc " + b(2) + ")))\n" +
		"  (and (= rt " + k("VCCHI") + ") (= rc " + b(1) + ")) (= rt " + k("EXEC") + ") (and (= rt " + k("EXECLO") + ") (= rc " + b(2) + ")) (= rt " + k("M0") + "))))")
	wdesc := desc + " (v (_ BitVec 64))"
	c.Raw("(define-fun isa.wrS (" + wdesc + " (S " + sortSGPR + ")) " + sortSGPR + "\n" +
		" (let ((nb (isa.nb bs rc)) (i (bvsub rt " + k("S0") + ")))\n" +
		" (ite (isa.isS rt) (ite (= nb " + b(4) + ") (store S i " + fmt.Sprintf(lo, "v") + ") (store (store S i " + fmt.Sprintf(lo, "v") + ") (bvadd i " + b(1) + ") " + fmt.Sprintf(hi, "v") + ")) S)))")
	c.Raw("(define-fun isa.wrV (" + wdesc + " (V " + sortVGPR + ")) " + sortVGPR + "\n" +
		" (let ((nb (isa.nb bs rc)) (i (bvsub rt " + k("V0") + ")))\n" +
		" (ite (isa.isV rt) (store V lane (ite (= nb " + b(4) + ") (store (select V lane) i " + fmt.Sprintf(lo, "v") + ") (store (store (select V lane) i " + fmt.Sprintf(lo, "v") + ") (bvadd i " + b(1) + ") " + fmt.Sprintf(hi, "v") + "))) V)))")
	c.Raw("(define-fun isa.wrScc (" + wdesc + " (scc (_ BitVec 8))) (_ BitVec 8) (ite (= rt " + k("SCC") + ") ((_ extract 7 0) v) scc))")
	c.Raw("(define-fun isa.wrVcc (" + wdesc + " (vcc (_ BitVec 64))) (_ BitVec 64)\n" +
		" (ite (or (= rt " + k("VCC") + ") (and (= rt " + k("VCCLO") + ") (= rc " + b(2) + "))) v\n" +
		" (ite (and (= rt " + k("VCCLO") + ") (= rc " + b(1) + ")) (concat " + fmt.Sprintf(hi, "vcc") + " " + fmt.Sprintf(lo, "v") + ")\n" +
		" (ite (and (= rt " + k("VCCHI") + ") (= rc " + b(1) + ")) (concat " + fmt.Sprintf(lo, "v") + " " + fmt.Sprintf(lo, "vcc") + ") vcc))))")
	c.Raw("(define-fun isa.wrExec (" + wdesc + " (exec (_ BitVec 64))) (_ BitVec 64)\n" +
		" (ite (or (= rt " + k("EXEC") + ") (and (= rt " + k("EXECLO") + ") (= rc " + b(2) + "))) v exec))")
	c.Raw("(define-fun isa.wrM0 (" + wdesc + " (m0 (_ BitVec 32))) (_ BitVec 32) (ite (= rt " + k("M0") + ") " + fmt.Sprintf(lo, "v") + " m0))")
}

type isaWrite struct{ reach, op, lane, v Term }

type opDesc struct {
	ot, rt, bs, rc Term // OperandType, Register.RegType, Register.ByteSize, RegCount (bv64)
	reg            Term // Register pointer
	intv, lit, flt Term
}

func (c *Ctx) instsType(name string) types.Type {
	return c.W.pkgs[instsPath].Members[name].(*ssa.Type).Type()
}

// operandDesc loads the descriptor fields of *insts.Operand at op.
func (c *Ctx) operandDesc(st *State, op Term) opDesc {
	ot := c.instsType("Operand")
	s := ot.Underlying().(*types.Struct)
	fld := func(name string) *Val {
		for i := 0; i < s.NumFields(); i++ {
			if s.Field(i).Name() == name {
				return c.defVal("opd."+name, c.load(st, RefSub(op, i), s.Field(i).Type()))
			}
		}
		panic(unsupported("insts.Operand has no field %s", name))
	}
	d := opDesc{ot: fld("OperandType").T, rc: fld("RegCount").T, intv: fld("IntValue").T, lit: fld("LiteralConstant").T, flt: fld("FloatValue").T}
	d.reg = fld("Register").T
	rs := c.instsType("Reg").Underlying().(*types.Struct)
	for i := 0; i < rs.NumFields(); i++ {
		switch rs.Field(i).Name() {
		case "RegType":
			d.rt = c.Def("opd.rt", c.load(st, RefSub(d.reg, i), rs.Field(i).Type()).T)
		case "ByteSize":
			d.bs = c.known(c.Def("opd.bs", c.load(st, RefSub(d.reg, i), rs.Field(i).Type()).T))
		}
	}
	return d
}

func (c *Ctx) ghostArgs(st *State) string {
	return strings.Join([]string{c.ghost(st, "G_sgpr").S, c.ghost(st, "G_vgpr").S, c.ghost(st, "G_scc").S, c.ghost(st, "G_vcc").S,
		c.ghost(st, "G_exec").S, c.ghost(st, "G_m0").S}, " ")
}

// rdOperand: the value ReadOperand(op, lane) returns in state st, and the
// condition under which the call panics (unsupported operand type).
func (c *Ctx) rdOperand(st *State, op, lane Term) (Term, Term) {
	c.isaPrelude()
	d := c.operandDesc(st, op)
	w := c.W
	reg := raw(fmt.Sprintf("(isa.rdreg %s %s %s %s %s)", d.rt.S, d.bs.S, d.rc.S, lane.S, c.ghostArgs(st)), SBV(64))
	f32 := c.UF("cvt.f64.f32", SBV(32), d.flt)
	val := Ite(Eq(d.ot, BVLitI(w.instsConst("RegOperand"), 64)), reg,
		Ite(Eq(d.ot, BVLitI(w.instsConst("IntOperand"), 64)), d.intv,
			Ite(Eq(d.ot, BVLitI(w.instsConst("FloatOperand"), 64)), ZeroExt(32, f32), ZeroExt(32, d.lit))))
	bad := Not(Or(Eq(d.ot, BVLitI(w.instsConst("RegOperand"), 64)), Eq(d.ot, BVLitI(w.instsConst("IntOperand"), 64)),
		Eq(d.ot, BVLitI(w.instsConst("FloatOperand"), 64)), Eq(d.ot, BVLitI(w.instsConst("LiteralConstant"), 64))))
	bad = Or(bad, Eq(op, TNull), And(Eq(d.ot, BVLitI(w.instsConst("RegOperand"), 64)), Eq(d.reg, TNull)))
	return c.Def("rdop", val), bad
}

// wrOperand applies WriteOperand(op, lane, v) to the ghost state; returns the
// panic condition (non-register operand, or a width/kind the store rejects).
func (c *Ctx) wrOperand(st *State, op, lane, v Term) Term {
	c.isaPrelude()
	d := c.operandDesc(st, op)
	w := c.W
	args := fmt.Sprintf("%s %s %s %s %s", d.rt.S, d.bs.S, d.rc.S, lane.S, v.S)
	S, V := c.ghost(st, "G_sgpr"), c.ghost(st, "G_vgpr")
	scc, vcc, exec, m0 := c.ghost(st, "G_scc"), c.ghost(st, "G_vcc"), c.ghost(st, "G_exec"), c.ghost(st, "G_m0")
	st.mem["G_sgpr"] = c.Def("G_sgpr", raw(fmt.Sprintf("(isa.wrS %s %s)", args, S.S), sortSGPR))
	st.mem["G_vgpr"] = c.Def("G_vgpr", raw(fmt.Sprintf("(isa.wrV %s %s)", args, V.S), sortVGPR))
	st.mem["G_scc"] = c.Def("G_scc", raw(fmt.Sprintf("(isa.wrScc %s %s)", args, scc.S), SBV(8)))
	st.mem["G_vcc"] = c.Def("G_vcc", raw(fmt.Sprintf("(isa.wrVcc %s %s)", args, vcc.S), SBV(64)))
	st.mem["G_exec"] = c.Def("G_exec", raw(fmt.Sprintf("(isa.wrExec %s %s)", args, exec.S), SBV(64)))
	st.mem["G_m0"] = c.Def("G_m0", raw(fmt.Sprintf("(isa.wrM0 %s %s)", args, m0.S), SBV(32)))
	bad := Or(Eq(op, TNull), Neq(d.ot, BVLitI(w.instsConst("RegOperand"), 64)), Eq(d.reg, TNull),
		Not(raw(fmt.Sprintf("(isa.wrdefined %s %s %s)", d.rt.S, d.bs.S, d.rc.S), SBool)))
	return bad
}

// operandMustBeVGPR: under the current assumptions the operand can only be a vector register
// (decided by the solver, cached per operand term).
func (c *Ctx) operandMustBeVGPR(st *State, op Term) bool {
	key := "mustV|" + op.S
	if v, ok := c.boolCache[key]; ok {
		return v
	}
	d := c.operandDesc(st, op)
	isV := raw("(isa.isV "+d.rt.S+")", SBool)
	isReg := Eq(d.ot, BVLitI(c.W.instsConst("RegOperand"), 64))
	r := !c.feasible(And(st.reach, Not(And(isReg, isV))))
	c.boolCache[key] = r
	return r
}

// wrOperandV: WriteOperand on an operand known to be a VGPR touches only the vector file.
func (c *Ctx) wrOperandV(st *State, op, lane, v Term) Term {
	c.isaPrelude()
	d := c.operandDesc(st, op)
	args := fmt.Sprintf("%s %s %s %s %s", d.rt.S, d.bs.S, d.rc.S, lane.S, v.S)
	V := c.ghost(st, "G_vgpr")
	st.mem["G_vgpr"] = c.Def("G_vgpr", raw(fmt.Sprintf("(isa.wrV %s %s)", args, V.S), sortVGPR))
	return Or(Eq(op, TNull), Eq(d.reg, TNull), Not(raw(fmt.Sprintf("(isa.wrdefined %s %s %s)", d.rt.S, d.bs.S, d.rc.S), SBool)))
}

const emuState = "amd/emu.InstEmuState."

func registerISAModels(w *World) {
	u64 := types.Typ[types.Uint64]
	w.models[emuState+"Inst"] = func(f *Frame, st *State, call ssa.CallInstruction, args []*Val) *Val {
		c := f.c
		t := c.UF("G_inst", SRef)
		if !c.assumed["G_inst"] {
			c.assumed["G_inst"] = true
			c.Assume(TTrue, And(ILt(RefRoot(t), IntLitI(birthBase)), ILt(IntLitI(0), RefRoot(t))), "state.Inst() is an allocated instruction")
		}
		return scalar(t, call.Common().Signature().Results().At(0).Type())
	}
	w.models[emuState+"PID"] = func(f *Frame, st *State, call ssa.CallInstruction, args []*Val) *Val {
		return scalar(f.c.UF("G_pid", f.c.scalarSort(call.Common().Signature().Results().At(0).Type())), call.Common().Signature().Results().At(0).Type())
	}
	getter := func(name string, ty types.Type) Model {
		return func(f *Frame, st *State, call ssa.CallInstruction, args []*Val) *Val {
			return scalar(f.c.ghost(st, name), ty)
		}
	}
	setter := func(name string) Model {
		return func(f *Frame, st *State, call ssa.CallInstruction, args []*Val) *Val {
			f.c.ghost(st, name)
			st.mem[name] = f.c.Def(name, args[1].T)
			return nil
		}
	}
	w.models[emuState+"EXEC"] = getter("G_exec", u64)
	w.models[emuState+"VCC"] = getter("G_vcc", u64)
	w.models[emuState+"PC"] = getter("G_pc", u64)
	w.models[emuState+"SCC"] = getter("G_scc", types.Typ[types.Uint8])
	w.models[emuState+"SetEXEC"] = setter("G_exec")
	w.models[emuState+"SetVCC"] = setter("G_vcc")
	w.models[emuState+"SetPC"] = setter("G_pc")
	w.models[emuState+"SetSCC"] = setter("G_scc")
	w.models[emuState+"ReadOperand"] = func(f *Frame, st *State, call ssa.CallInstruction, args []*Val) *Val {
		if ls := f.topFrame().lanes; ls != nil && ls.cur != nil {
			d := f.c.operandDesc(st, args[1].T)
			ls.instantiate(f.c, args[2].T, BVSub(d.rt, BVLitI(f.c.W.instsConst("V0"), 64)))
		}
		v, bad := f.c.rdOperand(st, args[1].T, args[2].T)
		f.panicSite(st, call.(ssa.Instruction), "operand", bad, "ReadOperand on an unsupported or nil operand")
		return scalar(v, u64)
	}
	w.models[emuState+"WriteOperand"] = func(f *Frame, st *State, call ssa.CallInstruction, args []*Val) *Val {
		top := f.topFrame()
		c := f.c
		// the written value is named by an opaque constant whose definition a
		// discharged value lemma may replace (see isaObligations)
		wv := c.Fresh("isa.wval", SBV(64))
		tag := fmt.Sprintf("wval%d", len(top.isaWrites))
		c.assumes = append(c.assumes, Assume{declPos: len(c.decls), t: Eq(wv, args[3].T), why: "definition of the written value", tag: tag})
		top.isaWrites = append(top.isaWrites, isaWrite{st.reach, args[1].T, args[2].T, wv})
		var bad Term
		if c.operandMustBeVGPR(st, args[1].T) {
			bad = c.wrOperandV(st, args[1].T, args[2].T, wv)
		} else {
			bad = c.wrOperand(st, args[1].T, args[2].T, wv)
		}
		f.panicSite(st, call.(ssa.Instruction), "operand", bad, "WriteOperand on a non-register operand or unsupported register/width")
		return nil
	}
	for _, m := range []string{"SetEXEC", "SetVCC", "SetPC", "SetSCC", "WriteOperand"} {
		w.modelWrites[emuState+m] = ghostOrder
	}
	for _, m := range []string{"EXEC", "VCC", "PC", "SCC", "ReadOperand", "Inst", "PID"} {
		w.modelWrites[emuState+m] = nil
	}
}

// ---- ISA table ----------------------------------------------------------------------------

type IsaEntry struct {
	Name    string
	Kind    map[string]string // operand -> "v": the encoding field can only name a VGPR
	Ops     map[string]int    // operand -> width in bits (D, S0, S1, S2, SDST)
	Eff     map[string]*Expr
	Lets    []isaLet
	PerLane bool
	NoSdwa  bool
	Pre     []*Expr
	File    string
	Line    int
	Ref     string
}

type isaLet struct {
	name string
	e    *Expr
}

func parseIsaFile(path string) (map[string]*IsaEntry, error) {
	data, err := os.ReadFile(path)
	if err != nil {
		return nil, err
	}
	out := map[string]*IsaEntry{}
	var cur *IsaEntry
	for i, ln := range strings.Split(string(data), "\n") {
		if k := strings.Index(ln, "#"); k >= 0 {
			ln = ln[:k]
		}
		t := strings.TrimSpace(ln)
		if t == "" {
			continue
		}
		fail := func(e error) error { return fmt.Errorf("%s:%d: %v", path, i+1, e) }
		if strings.HasPrefix(t, "isa ") {
			cur = &IsaEntry{Name: strings.TrimSpace(t[4:]), Ops: map[string]int{}, Kind: map[string]string{}, Eff: map[string]*Expr{}, File: path, Line: i + 1}
			out[cur.Name] = cur
			continue
		}
		if cur == nil {
			continue
		}
		switch {
		case strings.HasPrefix(t, "ops "):
			for _, f := range strings.Fields(t[4:]) {
				kv := strings.SplitN(f, ":", 2)
				var w int
				fmt.Sscanf(kv[1], "%d", &w)
				cur.Ops[kv[0]] = w
				if strings.HasSuffix(kv[1], "v") {
					cur.Kind[kv[0]] = "v" // the encoding field can only name a VGPR
				}
			}
		case strings.HasPrefix(t, "ref "):
			cur.Ref = strings.TrimSpace(t[4:])
		case strings.HasPrefix(t, "lanes"):
			cur.PerLane = true
		case strings.HasPrefix(t, "nosdwa"):
			cur.NoSdwa = true
		case strings.HasPrefix(t, "pre "):
			e, err := parseExpr(t[4:])
			if err != nil {
				return nil, fail(err)
			}
			cur.Pre = append(cur.Pre, e)
		case strings.HasPrefix(t, "let "):
			kv := strings.SplitN(t[4:], "=", 2)
			e, err := parseExpr(kv[1])
			if err != nil {
				return nil, fail(err)
			}
			cur.Lets = append(cur.Lets, isaLet{strings.TrimSpace(kv[0]), e})
		default:
			// first '=' that is not part of ==, <=, >=, !=
			k := -1
			for j := 0; j < len(t); j++ {
				if t[j] == '=' && (j+1 >= len(t) || t[j+1] != '=') && (j == 0 || !strings.ContainsRune("=<>!", rune(t[j-1]))) {
					k = j
					break
				}
			}
			if k < 0 {
				return nil, fail(fmt.Errorf("bad line %q", t))
			}
			if strings.TrimSpace(t[k+1:]) == "any" {
				cur.Eff[strings.TrimSpace(t[:k])] = &Expr{Op: "any"}
				continue
			}
			e, err := parseExpr(t[k+1:])
			if err != nil {
				return nil, fail(err)
			}
			cur.Eff[strings.TrimSpace(t[:k])] = e
		}
	}
	return out, nil
}

// instField loads inst.<name> (a *insts.Operand) from the instruction object.
func (c *Ctx) instField(st *State, inst Term, name string) Term {
	it := c.instsType("Inst").Underlying().(*types.Struct)
	for i := 0; i < it.NumFields(); i++ {
		if it.Field(i).Name() == name {
			return c.Def("inst."+name, c.load(st, RefSub(inst, i), it.Field(i).Type()).T)
		}
	}
	panic(unsupported("insts.Inst has no field %s", name))
}

var isaOperandField = map[string]string{"D": "Dst", "S0": "Src0", "S1": "Src1", "S2": "Src2", "SDST": "SDst", "MDST": "Dst", "SIMM16": "SImm16"}

// maskDst: the per-lane mask destination of an entry: SDSTBIT writes the SDST field (VOP3b), MDSTBIT the
// destination field itself (VOP3a compares, whose 64-bit result goes to an SGPR pair named by VDST).
func maskDst(e *IsaEntry) (key, field string) {
	if e.Eff["MDSTBIT"] != nil {
		return "MDSTBIT", "Dst"
	}
	return "SDSTBIT", "SDst"
}

// isaRequires: operand well-formedness for the widths the table gives.
func (c *Ctx) isaRequires(st *State, e *IsaEntry) {
	w := c.W
	inst := c.UF("G_inst", SRef)
	for _, opn := range sortedKeys(e.Ops) {
		width := e.Ops[opn]
		fld, ok := isaOperandField[opn]
		if !ok {
			panic(unsupported("isa %s: unknown operand %s", e.Name, opn))
		}
		op := c.instField(st, inst, fld)
		d := c.operandDesc(st, op)
		isReg := Eq(d.ot, BVLitI(w.instsConst("RegOperand"), 64))
		nb := raw(fmt.Sprintf("(isa.nb %s %s)", d.bs.S, d.rc.S), SBV(64))
		c.isaPrelude()
		okKinds := Or(isReg, Eq(d.ot, BVLitI(w.instsConst("IntOperand"), 64)), Eq(d.ot, BVLitI(w.instsConst("FloatOperand"), 64)),
			Eq(d.ot, BVLitI(w.instsConst("LiteralConstant"), 64)))
		wf := And(Neq(op, TNull), okKinds, Implies(isReg, And(Neq(d.reg, TNull), Eq(nb, BVLitI(int64(width/8), 64)),
			Eq(d.bs, raw("(isa.regbs "+d.rt.S+")", SBV(64))), BVSle(BVLitI(0, 64), d.rc))))
		c.W.noteAssumed("register descriptors come from the insts.Regs table (ByteSize is a function of RegType)")
		isInt := Eq(d.ot, BVLitI(w.instsConst("IntOperand"), 64))
		wf = And(wf, c.floatOperandWF(d))
		if opn == "SIMM16" {
			wf = And(wf, isInt, BVSle(BVLitI(0, 64), d.intv), BVSle(d.intv, BVLitI(0xFFFF, 64)))
		} else {
			// inline integer constants are -16..64 (insts.getOperand)
			wf = And(wf, Implies(isInt, And(BVSle(BVLitI(-16, 64), d.intv), BVSle(d.intv, BVLitI(64, 64)))))
		}
		isVr := raw("(isa.isV "+d.rt.S+")", SBool)
		isSr := raw("(isa.isS "+d.rt.S+")", SBool)
		kc := func(n string) Term { return Eq(d.rt, BVLitI(w.instsConst(n), 64)) }
		scalarDstKinds := Or(isSr, kc("VCCLO"), kc("VCCHI"), kc("EXECLO"), kc("M0"))
		if opn == "D" || opn == "SDST" || opn == "MDST" {
			wf = And(wf, isReg, raw(fmt.Sprintf("(isa.wrdefined %s %s %s)", d.rt.S, d.bs.S, d.rc.S), SBool))
			if e.PerLane && opn == "D" {
				wf = And(wf, isVr) // vector destination (VDST field)
			} else {
				wf = And(wf, scalarDstKinds) // SDST field codes 0..127: SGPR, VCC, EXEC, M0 halves
			}
		} else if !e.PerLane {
			wf = And(wf, Implies(isReg, Not(isVr))) // SSRC fields cannot name a VGPR
		}
		if e.Kind[opn] == "v" {
			wf = And(wf, isReg, isVr) // VSRC fields name a VGPR
		}
		// registers whose read is defined by the contract
		regDefined := Or(raw("(isa.isV "+d.rt.S+")", SBool), raw("(isa.isS "+d.rt.S+")", SBool),
			raw(fmt.Sprintf("(isa.wrdefined %s %s %s)", d.rt.S, d.bs.S, d.rc.S), SBool))
		wf = And(wf, Implies(isReg, regDefined))
		// multi-register operands stay inside the register file
		last := BVAdd(d.rt, BVLitI(int64(width/32-1), 64))
		if width >= 64 {
			wf = And(wf, Implies(And(isReg, raw("(isa.isV "+d.rt.S+")", SBool)), raw("(isa.isV "+last.S+")", SBool)),
				Implies(And(isReg, raw("(isa.isS "+d.rt.S+")", SBool)), raw("(isa.isS "+last.S+")", SBool)))
		}
		c.Assume(TTrue, wf, "operand "+opn+" is a well-formed "+fmt.Sprint(width)+"-bit operand (decoder contract)")
	}
}

// isaObligations compares the final ghost state of the handler with the state
// the ISA table prescribes.
func isaObligations(f *Frame, rst *State, ct *Contract, post *Scope) {
	names := ct.Extra["isa"]
	if len(names) == 0 {
		return
	}
	c := f.c
	w := c.W
	e := w.isaTable[names[0]]
	pos := w.fset.Position(f.fn.Pos())
	if e == nil {
		c.Oblige("isa", "entry", TTrue, TFalse, pos, "no ISA table entry named "+names[0])
		return
	}
	spec := f.entry.clone() // expected state starts from the entry state
	for _, g := range ghostOrder {
		c.ghost(spec, g)
		c.ghost(rst, g)
	}
	entry := f.entry
	inst := c.UF("G_inst", SRef)
	ev := newIsaEval(c, e, entry)
	evalAt, to, guard := ev.evalAt, isaTo, ev.guard
	lane0 := BVLitI(0, 64)
	var helpers []*Obligation
	var laneDone *laneSpec
	if !e.PerLane {
		sc := evalAt(lane0)
		// order of effects: destination write first, then condition codes (aliasing: D may be VCC/EXEC/SCC itself)
		for _, key := range []string{"D", "SDST", "MDST"} {
			if ex, ok := e.Eff[key]; ok {
				guard(key, func() {
					op := c.instField(entry, inst, isaOperandField[key])
					sv := c.Def("isa.specval", to(sc.eval(ex), 64))
					c.wrOperand(spec, op, lane0, sv)
					// helper lemmas (cut rule): each write the handler performs carries the
					// prescribed value at the destination width. Used as an assumption by the
					// state obligation only when discharged on its own.
					d := c.operandDesc(entry, op)
					nb := raw(fmt.Sprintf("(isa.nb %s %s)", d.bs.S, d.rc.S), SBV(64))
					for i, wr := range f.isaWrites {
						g := Or(Eq(wr.v, sv), And(Eq(nb, BVLitI(4, 64)), Eq(Extract(31, 0, wr.v), Extract(31, 0, sv))))
						h := c.Oblige("helper", fmt.Sprintf("%s.value%d", key, i), wr.reach, g, pos, "value written by the handler equals the prescribed value at the destination width")
						h.Helper = true
						h.DropTag = fmt.Sprintf("wval%d", i)
						helpers = append(helpers, h)
					}
				})
			}
		}
	} else if ls := f.laneSpecFor(); ls != nil && ls.done {
		// the lane loop was summarised by an invariant (lanes.go): the prescribed state is
		// stated per cell (skolem lane / register) and through the 64-lane masks
		laneDone = ls
		if mk, mf := maskDst(e); e.Eff[mk] != nil {
			op := c.instField(entry, inst, mf)
			c.wrOperand(spec, op, lane0, ls.maskAtSkolemBit(mk))
		}
	} else {
		exec := c.ghost(entry, "G_exec")
		vccAcc := c.ghost(entry, "G_vcc")
		var sdstAcc Term
		hasVccBit := e.Eff["VCCBIT"] != nil
		mk, mf := maskDst(e)
		hasSdstBit := e.Eff[mk] != nil
		if hasVccBit {
			vccAcc = BVLitI(0, 64)
		}
		if hasSdstBit {
			sdstAcc = BVLitI(0, 64)
		}
		for l := int64(0); l < 64; l++ {
			lane := BVLitI(l, 64)
			active := Eq(Extract(int(l), int(l), exec), BVLitI(1, 1))
			sc := evalAt(lane)
			if ex, ok := e.Eff["VD"]; ok {
				guard("VD", func() {
					op := c.instField(entry, inst, "Dst")
					tmp := spec.clone()
					c.wrOperand(tmp, op, lane, to(sc.eval(ex), 64))
					for _, g := range ghostOrder {
						spec.mem[g] = c.Def(g, Ite(active, tmp.mem[g], spec.mem[g]))
					}
				})
			}
			if hasVccBit {
				guard("VCCBIT", func() {
					bit := to(sc.eval(e.Eff["VCCBIT"]), 64)
					vccAcc = c.Def("vccacc", Ite(active, BVOr(vccAcc, BVShl(BVAnd(bit, BVLitI(1, 64)), lane)), vccAcc))
				})
			}
			if hasSdstBit {
				guard(mk, func() {
					bit := to(sc.eval(e.Eff[mk]), 64)
					sdstAcc = c.Def("sdstacc", Ite(active, BVOr(sdstAcc, BVShl(BVAnd(bit, BVLitI(1, 64)), lane)), sdstAcc))
				})
			}
		}
		if hasVccBit {
			spec.mem["G_vcc"] = vccAcc
		}
		if hasSdstBit {
			op := c.instField(entry, inst, mf)
			c.wrOperand(spec, op, lane0, sdstAcc)
		}
	}
	sc := evalAt(lane0)
	skip := map[string]bool{}
	effGhost := map[string]string{"SCC": "G_scc", "VCC": "G_vcc", "EXEC": "G_exec", "PC": "G_pc", "M0": "G_m0"}
	for _, key := range sortedKeys(effGhost) {
		g := effGhost[key]
		if ex, ok := e.Eff[key]; ok {
			if ex.Op == "any" {
				skip[g] = true
				continue
			}
			k, gg := key, g
			guard(k, func() { spec.mem[gg] = to(sc.eval(ex), bvWidth(ghostSorts[gg])) })
		}
	}
	applies := TTrue
	for _, pe := range e.Pre {
		guard("pre", func() { applies = And(applies, sc.evalBool(pe)) })
	}
	inputs := f.isaInputs(entry, e)
	// Three named obligations per handler: the register state as a whole
	// (destination value at its width, and nothing else changed), SCC, and PC.
	results := map[string]Term{"SCC": rst.mem["G_scc"], "VCC": rst.mem["G_vcc"], "EXEC": rst.mem["G_exec"], "PC": rst.mem["G_pc"], "M0": rst.mem["G_m0"]}
	if _, hasD := e.Ops["D"]; hasD {
		d := c.operandDesc(entry, c.instField(entry, inst, "Dst"))
		ix := BVSub(d.rt, BVLitI(w.instsConst("S0"), 64))
		results["Dcell0"] = c.Def("res.dcell0", Select(rst.mem["G_sgpr"], ix))
		results["Dcell1"] = c.Def("res.dcell1", Select(rst.mem["G_sgpr"], BVAdd(ix, BVLitI(1, 64))))
	}
	skS, skL := c.Fresh("sk.reg", SBV(64)), c.Fresh("sk.lane", SBV(64))
	groups := []struct {
		name string
		gs   []string
	}{{"regs", []string{"G_sgpr", "G_vgpr", "G_vcc", "G_exec", "G_m0"}}, {"SCC", []string{"G_scc"}}, {"PC", []string{"G_pc"}}}
	for _, grp := range groups {
		var eqs []Term
		for _, g := range grp.gs {
			if skip[g] {
				continue
			}
			switch g {
			case "G_sgpr": // extensional equality, skolemised: equal at an arbitrary index
				eqs = append(eqs, Eq(Select(rst.mem[g], skS), Select(spec.mem[g], skS)))
			case "G_vcc":
				if laneDone != nil && e.Eff["VCCBIT"] != nil {
					// per bit, at an arbitrary position: bit l of VCC is the prescribed bit of lane l
					l := laneDone.skBit(c)
					eqs = append(eqs, Implies(And(BVUlt(l, BVLitI(64, 64)), Not(laneDone.exempt(l))), Eq(BVAnd(BVLshr(rst.mem[g], l), BVLitI(1, 64)), laneDone.specBit("VCCBIT", l))))
				} else {
					eqs = append(eqs, Eq(rst.mem[g], spec.mem[g]))
				}
			case "G_vgpr":
				if laneDone != nil {
					cl, ck := laneDone.skolemCell(c)
					eqs = append(eqs, Implies(Not(And(BVUlt(cl, BVLitI(64, 64)), laneDone.exempt(cl))), Eq(Select(Select(rst.mem[g], cl), ck), laneDone.specCell(cl, ck))))
				} else {
					eqs = append(eqs, Eq(Select(Select(rst.mem[g], skL), skS), Select(Select(spec.mem[g], skL), skS)))
				}
			default:
				eqs = append(eqs, Eq(rst.mem[g], spec.mem[g]))
			}
		}
		if len(eqs) == 0 {
			continue
		}
		o := c.Oblige("isa", grp.name, And(rst.reach, applies), And(eqs...), pos,
			fmt.Sprintf("final %s state equals the state prescribed by ISA entry %s (%s)", grp.name, e.Name, e.Ref))
		o.Inputs = inputs
		o.Results = results
		if grp.name == "regs" {
			o.Helpers = helpers
		}
		if laneDone != nil {
			o.CTI = laneDone.cti
		}
	}
	// heap frame: an ALU handler must not modify Go-level memory (instruction, operands)
	for _, n := range sortedKeys(rst.mem) {
		final := rst.mem[n]
		if strings.HasPrefix(n, "G_") {
			continue
		}
		if init, ok := c.memInit[n]; ok && init.S != final.S {
			c.Oblige("isa", "heapframe."+n, rst.reach, Eq(final, init), pos, "handler leaves "+n+" unchanged")
		}
	}
}

func isaPre(f *Frame, st *State, ct *Contract) {
	names := ct.Extra["isa"]
	if len(names) == 0 {
		return
	}
	c := f.c
	c.isaPrelude()
	for _, g := range ghostOrder {
		c.ghost(st, g)
	}
	e := c.W.isaTable[names[0]]
	if e == nil {
		return
	}
	// the state parameter is an InstEmuState: calls go through the interface contract
	inst := c.UF("G_inst", SRef)
	if !c.assumed["G_inst"] {
		c.assumed["G_inst"] = true
		c.Assume(TTrue, And(ILt(RefRoot(inst), IntLitI(birthBase)), ILt(IntLitI(0), RefRoot(inst))), "state.Inst() is an allocated instruction")
	}
	c.isaRequires(st, e)
	if e.NoSdwa {
		it := c.instsType("Inst").Underlying().(*types.Struct)
		for i := 0; i < it.NumFields(); i++ {
			if it.Field(i).Name() == "IsSdwa" {
				c.Assume(TTrue, Not(c.load(st, RefSub(inst, i), it.Field(i).Type()).T), "plain (non-SDWA) encoding")
			}
		}
	}
	c.Assume(TTrue, BVUle(c.ghost(st, "G_scc"), BVLitI(1, 8)), "SCC holds a single bit (architectural invariant)")
}

// isaInputs names the model values that make up a counterexample: operand
// descriptors and the scalar architectural state.
func (f *Frame) isaInputs(entry *State, e *IsaEntry) map[string]Term {
	return f.isaInputsAt(entry, e, BVLitI(0, 64))
}

func (f *Frame) isaInputsAt(entry *State, e *IsaEntry, lane Term) map[string]Term {
	c := f.c
	inst := c.UF("G_inst", SRef)
	out := map[string]Term{"SCC": c.ghost(entry, "G_scc"), "VCC": c.ghost(entry, "G_vcc"), "EXEC": c.ghost(entry, "G_exec"),
		"PC": c.ghost(entry, "G_pc"), "M0": c.ghost(entry, "G_m0")}
	for _, opn := range sortedKeys(e.Ops) {
		op := c.instField(entry, inst, isaOperandField[opn])
		d := c.operandDesc(entry, op)
		out[opn+".type"] = d.ot
		out[opn+".regtype"] = d.rt
		out[opn+".bytesize"] = d.bs
		out[opn+".regcount"] = d.rc
		out[opn+".int"] = d.intv
		out[opn+".lit"] = d.lit
		out[opn+".float"] = d.flt
		v, _ := c.rdOperand(entry, op, lane)
		out[opn+".value"] = v
	}
	return out
}

// floatOperandWF: inline float constants are the nine values insts.getOperand
// produces; the float64 -> float32 conversion ReadOperand applies is pinned on them.
func (c *Ctx) floatOperandWF(d opDesc) Term {
	isFloat := Eq(d.ot, BVLitI(c.W.instsConst("FloatOperand"), 64))
	var alts []Term
	for _, k := range []float64{0.5, -0.5, 1.0, -1.0, 2.0, -2.0, 4.0, -4.0, 1.0 / (2.0 * math.Pi)} {
		alts = append(alts, And(Eq(d.flt, BVLitU(math.Float64bits(k), 64)),
			Eq(c.UF("cvt.f64.f32", SBV(32), d.flt), BVLitU(uint64(math.Float32bits(float32(k))), 32))))
	}
	return Implies(isFloat, Or(alts...))
}

// isaEval evaluates ISA-table expressions against the entry state.
type isaEval struct {
	c     *Ctx
	e     *IsaEntry
	entry *State
	inst  Term
	used  map[string]bool
}

func newIsaEval(c *Ctx, e *IsaEntry, entry *State) *isaEval {
	ev := &isaEval{c: c, e: e, entry: entry, inst: c.UF("G_inst", SRef), used: map[string]bool{}}
	var walk func(x *Expr)
	walk = func(x *Expr) {
		if x == nil {
			return
		}
		if x.Op == "id" {
			ev.used[x.Name] = true
		}
		for _, a := range x.Args {
			walk(a)
		}
	}
	for _, effKey := range sortedKeys(e.Eff) {
		x := e.Eff[effKey]
		walk(x)
	}
	for _, l := range e.Lets {
		walk(l.e)
	}
	for _, x := range e.Pre {
		walk(x)
	}
	return ev
}

func (ev *isaEval) evalAt(lane Term) *Scope {
	c, e, entry := ev.c, ev.e, ev.entry
	u64, u32, u8 := types.Typ[types.Uint64], types.Typ[types.Uint32], types.Typ[types.Uint8]
	sc := &Scope{c: c, fr: nil, st: entry, old: entry, vars: map[string]*Val{}}
	for _, opn := range sortedKeys(isaOperandField) {
		fld := isaOperandField[opn]
		if !ev.used[opn] && !(opn == "D" && ev.used["D0"]) {
			continue
		}
		op := c.instField(entry, ev.inst, fld)
		v, _ := c.rdOperand(entry, op, lane)
		sc.vars[opn+"val"] = scalar(v, u64)
	}
	for _, n := range []string{"S0", "S1", "S2", "SIMM16"} {
		if v, ok := sc.vars[n+"val"]; ok {
			sc.vars[n] = v
		}
	}
	if v, ok := sc.vars["Dval"]; ok {
		sc.vars["D0"] = v
	}
	sc.vars["SCC"] = scalar(c.ghost(entry, "G_scc"), u8)
	sc.vars["VCC"] = scalar(c.ghost(entry, "G_vcc"), u64)
	sc.vars["EXEC"] = scalar(c.ghost(entry, "G_exec"), u64)
	sc.vars["PC"] = scalar(c.ghost(entry, "G_pc"), u64)
	sc.vars["M0"] = scalar(c.ghost(entry, "G_m0"), u32)
	sc.vars["lane"] = scalar(lane, u64)
	for _, l := range e.Lets {
		sc.vars[l.name] = sc.eval(l.e)
	}
	return sc
}

func isaTo(v *Val, w int) Term {
	t := v.T
	if t.Sort == SBool {
		return Ite(t, BVLitI(1, w), BVLitI(0, w))
	}
	if t.Sort == SInt && t.C != nil {
		return BVLit(t.C, w)
	}
	_, signed, _ := intInfoOrUnsigned(v.Ty)
	return Resize(t, w, signed)
}

func (ev *isaEval) guard(name string, fn func()) {
	e := ev.e
	defer func() {
		if r := recover(); r != nil {
			if se, ok := r.(specErr); ok {
				panic(unsupported("%s:%d: isa %s %s: %s", e.File, e.Line, e.Name, name, se.msg))
			}
			panic(r)
		}
	}()
	fn()
}

// isaClassVars: names usable in the input-class expressions of known findings on ALU handlers.
//
//	<op>neg     the operand is an inline integer constant with a negative value
//	<op>int     ... is an inline integer constant;  <op>reg  ... is a register
//	<op>val     the 64-bit value ReadOperand returns for lane 0 (scalar handlers)
//	SCC VCC EXEC  architectural state before the instruction
func isaClassVars(c *Ctx, st *State, e *IsaEntry, sc *Scope) {
	w := c.W
	inst := c.UF("G_inst", SRef)
	boolT := types.Typ[types.Bool]
	for _, opn := range sortedKeys(e.Ops) {
		op := c.instField(st, inst, isaOperandField[opn])
		d := c.operandDesc(st, op)
		isInt := Eq(d.ot, BVLitI(w.instsConst("IntOperand"), 64))
		sc.vars[opn+"int"] = scalar(isInt, boolT)
		sc.vars[opn+"neg"] = scalar(And(isInt, BVSlt(d.intv, BVLitI(0, 64))), boolT)
		sc.vars[opn+"reg"] = scalar(Eq(d.ot, BVLitI(w.instsConst("RegOperand"), 64)), boolT)
		v, _ := c.rdOperand(st, op, BVLitI(0, 64))
		sc.vars[opn+"val"] = scalar(v, types.Typ[types.Uint64])
	}
	sc.vars["SCC"] = scalar(c.ghost(st, "G_scc"), types.Typ[types.Uint8])
	sc.vars["VCC"] = scalar(c.ghost(st, "G_vcc"), types.Typ[types.Uint64])
	sc.vars["EXEC"] = scalar(c.ghost(st, "G_exec"), types.Typ[types.Uint64])
}

