package main

// Built-in semantics for library functions (intrinsics).

import (
	"fmt"
	"go/types"

	"golang.org/x/tools/go/ssa"
)

func registerModels(w *World) {
	// same-width reinterpret casts of amd/emu/util.go (implemented with unsafe):
	// modelled as bit identity; listed in the evidence as an assumption.
	for _, n := range []string{"AsInt16", "AsInt32", "AsInt64", "AsFloat32", "AsFloat64", "Int16ToBits", "Int32ToBits",
		"Int64ToBits", "Float32ToBits", "Float64ToBits"} {
		name := n
		w.models["amd/emu."+name] = func(f *Frame, st *State, call ssa.CallInstruction, args []*Val) *Val {
			f.c.W.noteAssumed("unsafe reinterpret cast emu." + name + " is bit identity")
			return scalar(args[0].T, call.Common().Signature().Results().At(0).Type())
		}
	}
	bitcast := func(what string) Model {
		return func(f *Frame, st *State, call ssa.CallInstruction, args []*Val) *Val {
			f.c.W.noteAssumed(what + " is bit identity")
			return scalar(args[0].T, call.Common().Signature().Results().At(0).Type())
		}
	}
	w.models["math.Float32bits"] = bitcast("math.Float32bits")
	w.models["math.Float32frombits"] = bitcast("math.Float32frombits")
	w.models["math.Float64bits"] = bitcast("math.Float64bits")
	w.models["math.Float64frombits"] = bitcast("math.Float64frombits")

	// encoding/binary little endian
	le := func(nbytes int, put bool) Model {
		return func(f *Frame, st *State, call ssa.CallInstruction, args []*Val) *Val {
			c := f.c
			in := call.(ssa.Instruction)
			b := args[1]
			f.panicSite(st, in, "index", c.idxLt(b.Len, c.idxLit(int64(nbytes))), "binary.LittleEndian: slice too short")
			u8 := types.Typ[types.Uint8]
			if put {
				v := args[2].T
				for i := 0; i < nbytes && c.intMode; i++ {
					by := sexp(SInt, "mod", sexp(SInt, "div", v, IntLit(pow2(8*i))), IntLit(pow2(8)))
					c.store(st, RefElem(b.Base, c.idxAdd(b.Off, c.idxLit(int64(i)))), u8, scalar(by, u8))
				}
				for i := 0; i < nbytes && !c.intMode; i++ {
					c.store(st, RefElem(b.Base, c.idxAdd(b.Off, c.idxLit(int64(i)))), u8, scalar(Extract(8*i+7, 8*i, v), u8))
				}
				return nil
			}
			var acc Term
			for i := 0; i < nbytes; i++ {
				by := c.load(st, RefElem(b.Base, c.idxAdd(b.Off, c.idxLit(int64(i)))), u8).T
				if i == 0 {
					acc = by
				} else if c.intMode {
					acc = IAdd(acc, IMul(by, IntLit(pow2(8*i))))
				} else {
					acc = Concat(by, acc)
				}
			}
			return scalar(c.Def("le", acc), call.Common().Signature().Results().At(0).Type())
		}
	}
	for _, k := range []struct {
		n string
		b int
	}{{"16", 2}, {"32", 4}, {"64", 8}} {
		w.models["encoding/binary.(littleEndian).Uint"+k.n] = le(k.b, false)
		w.models["encoding/binary.(littleEndian).PutUint"+k.n] = le(k.b, true)
	}
	// math/bits
	w.models["math/bits.OnesCount64"] = popcount(64)
	w.models["math/bits.OnesCount32"] = popcount(32)
	w.models["math/bits.OnesCount"] = popcount(64)
}

func popcount(w int) Model {
	return func(f *Frame, st *State, call ssa.CallInstruction, args []*Val) *Val {
		if f.c.intMode {
			panic(unsupported("math/bits in arith int mode"))
		}
		x := args[0].T
		acc := BVLitI(0, 64)
		for i := 0; i < w; i++ {
			acc = BVAdd(acc, ZeroExt(63, Extract(i, i, x)))
		}
		return scalar(f.c.Def(fmt.Sprintf("popcnt%d", w), acc), types.Typ[types.Int])
	}
}
