package main

// The typed heap: one SMT array per cell type, keyed by Ref.

import (
	"fmt"
	"go/types"
	"sort"
	"strings"

	"golang.org/x/tools/go/ssa"
)

type State struct {
	reach Term
	mem   map[string]Term // memory / ghost name -> current term
	ov    map[ssa.Value]*Val
	epoch int // 0: untouched memories equal their initial value; else: see Ctx.epochMem
	br    []brTag // branch stack: reach == And(br[top].parent, br[top].cond) while untouched
}

type brTag struct{ parent, cond Term }

func (s *State) clone() *State {
	n := &State{reach: s.reach, mem: make(map[string]Term, len(s.mem)), epoch: s.epoch, br: append([]brTag(nil), s.br...)}
	for k, v := range s.mem {
		n.mem[k] = v
	}
	if s.ov != nil {
		n.ov = make(map[ssa.Value]*Val, len(s.ov))
		for k, v := range s.ov {
			n.ov[k] = v
		}
	}
	return n
}

// zeroTerm returns the zero literal of a leaf sort.
func (c *Ctx) zeroOfSort(s string) (Term, bool) {
	switch {
	case s == SBool:
		return TFalse, true
	case s == SInt:
		return IntLitI(0), true
	case s == SRef:
		return TNull, true
	case isBV(s):
		return BVLitI(0, bvWidth(s)), true
	}
	return Term{}, false
}

// memGet returns the current array for a memory, declaring its initial value
// (with heap well-formedness axioms) on first use.
func (c *Ctx) memGet(st *State, name string, valSort string) Term {
	if t, ok := st.mem[name]; ok {
		return t
	}
	c.declareMem(name, SArr(SRef, valSort))
	t := c.memPeek(st, name)
	st.mem[name] = t
	return t
}

// declareMem introduces the initial array of a memory (once).
func (c *Ctx) declareMem(name, as string) {
	if _, ok := c.memInit[name]; ok {
		return
	}
	n := sanitize("M0_" + name)
	c.decls = append(c.decls, fmt.Sprintf("(declare-const %s %s)", n, as))
	t := raw(n, as)
	c.memSort[name] = as
	c.memInit[name] = t
	_, vs := arrSorts(as)
	if strings.HasPrefix(name, "MAPP_") {
		c.usesQuant = true
		c.assumes = append(c.assumes, Assume{declPos: len(c.decls), heapAx: true, why: "fresh maps are empty",
			t: raw(fmt.Sprintf("(forall ((r Ref)) (! (=> (>= (rroot r) %d) (= (select %s r) ((as const %s) false))) :pattern ((select %s r))))",
				birthBase, n, vs, n), SBool)})
		return
	}
	if !strings.HasPrefix(name, "MAP") && !strings.HasPrefix(name, "G_") {
		c.memAxioms(t, vs, birthBase, name)
	}
}

// memPeek: current value of a declared memory in a state that has not touched it.
func (c *Ctx) memPeek(st *State, name string) Term {
	if t, ok := st.mem[name]; ok {
		return t
	}
	if st.epoch == 0 || strings.HasPrefix(name, "G_") {
		return c.memInit[name]
	}
	return c.epochMem(st.epoch, name)
}

type epochInfo struct {
	bound int
	parts []epochPart // merge epoch
}
type epochPart struct {
	reach Term
	epoch int
}

func (c *Ctx) newEpoch(bound int) int {
	c.epochs = append(c.epochs, epochInfo{bound: bound})
	return len(c.epochs)
}

// epochMem: value of a memory not written since havoc event e.
func (c *Ctx) epochMem(e int, name string) Term {
	key := fmt.Sprintf("%d/%s", e, name)
	if t, ok := c.epochCache[key]; ok {
		return t
	}
	info := c.epochs[e-1]
	var t Term
	if len(info.parts) > 0 {
		get := func(p epochPart) Term {
			if p.epoch == 0 {
				return c.memInit[name]
			}
			return c.epochMem(p.epoch, name)
		}
		t = get(info.parts[len(info.parts)-1])
		for i := len(info.parts) - 2; i >= 0; i-- {
			t = Ite(info.parts[i].reach, get(info.parts[i]), t)
		}
		t = c.Def("ep."+name, t)
	} else {
		as := c.memSort[name]
		t = c.Fresh("hv."+name, as)
		_, vs := arrSorts(as)
		if !strings.HasPrefix(name, "MAP") {
			c.memAxioms(t, vs, info.bound, name)
		}
	}
	c.epochCache[key] = t
	return t
}

// memAxioms: cells of not-yet-allocated objects are zero; stored references
// point to already-allocated objects.
func (c *Ctx) memAxioms(m Term, valSort string, bound int, name string) {
	if z, ok := c.zeroOfSort(valSort); ok {
		c.usesQuant = true
		c.assumes = append(c.assumes, Assume{declPos: len(c.decls), heapAx: true, why: "unallocated cells are zero: " + name,
			t: raw(fmt.Sprintf("(forall ((r Ref)) (! (=> (>= (rroot r) %d) (= (select %s r) %s)) :pattern ((select %s r))))",
				bound, m.S, z.S, m.S), SBool)})
	}
	if valSort == SRef {
		c.assumes = append(c.assumes, Assume{declPos: len(c.decls), heapAx: true, why: "stored references are allocated: " + name,
			t: raw(fmt.Sprintf("(forall ((r Ref)) (! (and (< (rroot (select %s r)) %d) (>= (rroot (select %s r)) 0)) :pattern ((select %s r))))",
				m.S, bound, m.S, m.S), SBool)})
	}
}

func (c *Ctx) memSet(st *State, name string, t Term) {
	st.mem[name] = c.Def(name, t)
}

func (c *Ctx) newObj() Term {
	c.nextObj++
	return MkRef(IntLitI(int64(birthBase+c.nextObj)), raw("pnil", SPath))
}

// assumeOldRef: an input reference denotes an object allocated before entry.
func (c *Ctx) assumeOldRef(r Term) {
	c.Assume(TTrue, And(ILt(RefRoot(r), IntLitI(int64(birthBase+c.loopGap()))), ILe(IntLitI(0), RefRoot(r))), "input reference is allocated")
}

func (c *Ctx) loopGap() int { return 0 }

type leaf struct {
	suffix string
	sort   string
}

// cellLeaves: how a non-aggregate cell type is spread over memories.
func (c *Ctx) cellLeaves(t types.Type) []leaf {
	switch t.Underlying().(type) {
	case *types.Slice:
		return []leaf{{"#b", SRef}, {"#o", c.idxSort}, {"#l", c.idxSort}, {"#c", c.idxSort}}
	case *types.Interface:
		return []leaf{{"#tag", SInt}, {"#pay", SRef}}
	}
	s := c.scalarSort(t)
	if s == "" {
		panic(unsupported("cell of type %s", t))
	}
	return []leaf{{"", s}}
}

func (c *Ctx) memName(t types.Type) string { return "M_" + typeKey(t) }

// load reads a value of Go type t at address addr.
func (c *Ctx) load(st *State, addr Term, t types.Type) *Val {
	switch u := t.Underlying().(type) {
	case *types.Struct:
		v := &Val{K: KTuple, Ty: t}
		for i := 0; i < u.NumFields(); i++ {
			v.F = append(v.F, c.load(st, RefSub(addr, i), u.Field(i).Type()))
		}
		return v
	case *types.Array:
		if u.Len() > 128 {
			panic(unsupported("load of array value of length %d", u.Len()))
		}
		v := &Val{K: KTuple, Ty: t}
		for i := int64(0); i < u.Len(); i++ {
			v.F = append(v.F, c.load(st, RefElem(addr, c.idxLit(i)), u.Elem()))
		}
		return v
	case *types.Slice:
		n := c.memName(t)
		v := &Val{K: KSlice, Ty: t,
			Base: Select(c.memGet(st, n+"#b", SRef), addr), Off: Select(c.memGet(st, n+"#o", c.idxSort), addr),
			Len: Select(c.memGet(st, n+"#l", c.idxSort), addr), Cap: Select(c.memGet(st, n+"#c", c.idxSort), addr)}
		v = c.defVal("ld", v)
		z := c.idxLit(0)
		lim := c.idxLit(1 << 48)
		c.Assume(st.reach, And(c.idxLe(z, v.Off), c.idxLe(z, v.Len), c.idxLe(v.Len, v.Cap), c.idxLt(v.Cap, lim), c.idxLt(v.Off, lim),
			Implies(Eq(v.Base, TNull), Eq(v.Cap, z))), "slice header in memory is well-formed")
		return v
	case *types.Interface:
		n := c.memName(t)
		return &Val{K: KIface, Ty: t, Tag: Select(c.memGet(st, n+"#tag", SInt), addr), Pay: Select(c.memGet(st, n+"#pay", SRef), addr)}
	case *types.Signature:
		return scalar(Select(c.memGet(st, c.memName(t), SRef), addr), t)
	}
	s := c.scalarSort(t)
	if s == "" {
		panic(unsupported("load of type %s", t))
	}
	v := scalar(Select(c.memGet(st, c.memName(t), s), addr), t)
	if c.intMode {
		if w, signed, ok := intInfo(t); ok {
			lo, hi := typeRange(w, signed)
			c.Assume(st.reach, And(ILe(IntLit(lo), v.T), ILe(v.T, IntLit(hi))), "type range of loaded integer")
		}
	}
	return v
}

// store writes v (of Go type t) at addr.
func (c *Ctx) store(st *State, addr Term, t types.Type, v *Val) {
	switch u := t.Underlying().(type) {
	case *types.Struct:
		for i := 0; i < u.NumFields(); i++ {
			c.store(st, RefSub(addr, i), u.Field(i).Type(), v.F[i])
		}
		return
	case *types.Array:
		for i := int64(0); i < u.Len(); i++ {
			c.store(st, RefElem(addr, c.idxLit(i)), u.Elem(), v.F[i])
		}
		return
	case *types.Slice:
		n := c.memName(t)
		c.memSet(st, n+"#b", Store(c.memGet(st, n+"#b", SRef), addr, v.Base))
		c.memSet(st, n+"#o", Store(c.memGet(st, n+"#o", c.idxSort), addr, v.Off))
		c.memSet(st, n+"#l", Store(c.memGet(st, n+"#l", c.idxSort), addr, v.Len))
		c.memSet(st, n+"#c", Store(c.memGet(st, n+"#c", c.idxSort), addr, v.Cap))
		return
	case *types.Interface:
		n := c.memName(t)
		c.memSet(st, n+"#tag", Store(c.memGet(st, n+"#tag", SInt), addr, v.Tag))
		c.memSet(st, n+"#pay", Store(c.memGet(st, n+"#pay", SRef), addr, v.Pay))
		return
	case *types.Signature:
		if v.K == KFunc {
			c.note("function value stored to memory is abstracted to an opaque reference")
			c.memSet(st, c.memName(t), Store(c.memGet(st, c.memName(t), SRef), addr, c.Fresh("fnref", SRef)))
			return
		}
	}
	s := c.scalarSort(t)
	if s == "" {
		panic(unsupported("store of type %s", t))
	}
	c.memSet(st, c.memName(t), Store(c.memGet(st, c.memName(t), s), addr, v.T))
}

// mergeStates joins states arriving over several edges.
func (c *Ctx) mergeStates(sts []*State) *State {
	var live []*State
	for _, s := range sts {
		if s != nil && !s.reach.IsFalse() {
			live = append(live, s)
		}
	}
	if len(live) == 0 {
		return &State{reach: TFalse, mem: map[string]Term{}}
	}
	if len(live) == 1 {
		return live[0].clone()
	}
	out := &State{mem: map[string]Term{}, epoch: live[0].epoch}
	// diamond: two arms of the same branch re-join => the reach condition is the parent's again
	diamond := false
	if len(live) == 2 && len(live[0].br) > 0 && len(live[0].br) == len(live[1].br) {
		a, b := live[0].br[len(live[0].br)-1], live[1].br[len(live[1].br)-1]
		if a.parent.S == b.parent.S && (Not(a.cond).S == b.cond.S || Not(b.cond).S == a.cond.S) {
			diamond = true
			out.reach = a.parent
			out.br = append([]brTag(nil), live[0].br[:len(live[0].br)-1]...)
			// select on the local branch literal instead of the full path condition
			l0 := *live[0]
			l0.reach = a.cond
			live = []*State{&l0, live[1]}
		}
	}
	for _, s := range live {
		if s.epoch != out.epoch {
			var parts []epochPart
			for _, x := range live {
				parts = append(parts, epochPart{x.reach, x.epoch})
			}
			c.epochs = append(c.epochs, epochInfo{parts: parts})
			out.epoch = len(c.epochs)
			break
		}
	}
	var rs []Term
	for _, s := range live {
		rs = append(rs, s.reach)
	}
	if !diamond {
		out.reach = c.Def("reach", Or(rs...))
	}
	names := map[string]bool{}
	for _, s := range live {
		for k := range s.mem {
			names[k] = true
		}
	}
	var keys []string
	for k := range names {
		keys = append(keys, k)
	}
	sort.Strings(keys)
	for _, k := range keys {
		// value in a state lacking the memory is its initial value
		get := func(s *State) Term { return c.memPeek(s, k) }
		acc := get(live[len(live)-1])
		same := true
		for _, s := range live {
			if get(s).S != acc.S {
				same = false
			}
		}
		if !same {
			for i := len(live) - 2; i >= 0; i-- {
				acc = Ite(live[i].reach, get(live[i]), acc)
			}
			acc = c.Def(k, acc)
		}
		out.mem[k] = acc
	}
	// loop-variant overrides
	ovKeys := map[ssa.Value]bool{}
	for _, s := range live {
		for k := range s.ov {
			ovKeys[k] = true
		}
	}
	if len(ovKeys) > 0 {
		out.ov = map[ssa.Value]*Val{}
		for k := range ovKeys {
			var acc *Val
			for i := len(live) - 1; i >= 0; i-- {
				v, ok := live[i].ov[k]
				if !ok {
					continue
				}
				if acc == nil {
					acc = v
				} else {
					acc = c.iteVal(live[i].reach, v, acc)
				}
			}
			out.ov[k] = acc
		}
	}
	return out
}

// adopt continues this state with the contents of r (after a call or a merge).
func (s *State) adopt(r *State) {
	if r.reach.S != s.reach.S {
		s.br = nil
	}
	s.reach, s.mem, s.epoch = r.reach, r.mem, r.epoch
}
