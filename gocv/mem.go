package main

// The typed heap: one SMT array per cell type, keyed by Ref.

import (
	"fmt"
	"go/types"
	"sort"
	"strings"

	"golang.org/x/tools/go/ssa"
)

type State struct {
	reach  Term
	mem    map[string]Term // memory / ghost name -> current term
	ov     map[ssa.Value]*Val
	epoch  int             // 0: untouched memories equal their initial value; else: see Ctx.epochMem
	nonnil map[string]bool // references already checked non-nil on this path
	br     []brTag         // branch stack: reach == And(br[top].parent, br[top].cond) while untouched
}

type brTag struct{ parent, cond Term }

func (s *State) clone() *State {
	n := &State{reach: s.reach, mem: make(map[string]Term, len(s.mem)), epoch: s.epoch, br: append([]brTag(nil), s.br...)}
	for k, v := range s.mem {
		n.mem[k] = v
	}
	if s.nonnil != nil {
		n.nonnil = make(map[string]bool, len(s.nonnil))
		for k := range s.nonnil {
			n.nonnil[k] = true
		}
	}
	if s.ov != nil {
		n.ov = make(map[ssa.Value]*Val, len(s.ov))
		for k, v := range s.ov {
			n.ov[k] = v
		}
	}
	return n
}

// zeroTerm returns the zero literal of a leaf sort.
func (c *Ctx) zeroOfSort(s string) (Term, bool) {
	switch {
	case s == SBool:
		return TFalse, true
	case s == SInt:
		return IntLitI(0), true
	case s == SRef:
		return TNull, true
	case isBV(s):
		return BVLitI(0, bvWidth(s)), true
	}
	return Term{}, false
}

// memGet returns the current array for a memory, declaring its initial value
// (with heap well-formedness axioms) on first use.
func (c *Ctx) memGet(st *State, name string, valSort string) Term {
	if t, ok := st.mem[name]; ok {
		return t
	}
	c.declareMem(name, SArr(SRef, valSort))
	t := c.memPeek(st, name)
	st.mem[name] = t
	return t
}

// declareMem introduces the initial array of a memory (once).
func (c *Ctx) declareMem(name, as string) {
	if _, ok := c.memInit[name]; ok {
		return
	}
	n := sanitize("M0_" + name)
	c.decls = append(c.decls, fmt.Sprintf("(declare-const %s %s)", n, as))
	t := raw(n, as)
	c.memSort[name] = as
	c.memInit[name] = t
	_, vs := arrSorts(as)
	if strings.HasPrefix(name, "MAPP_") {
		c.usesQuant = true
		c.assumes = append(c.assumes, Assume{declPos: len(c.decls), heapAx: true, why: "fresh maps are empty",
			t: raw(fmt.Sprintf("(forall ((r Ref)) (! (=> (>= (rroot r) %d) (= (select %s r) ((as const %s) false))) :pattern ((select %s r))))",
				birthBase, n, vs, n), SBool)})
		return
	}
	if !strings.HasPrefix(name, "MAP") && !strings.HasPrefix(name, "G_") {
		c.memAxioms(t, vs, birthBase, name)
	}
	c.mapValueAxiom(t, name, birthBase)
}

// memPeek: current value of a declared memory in a state that has not touched it.
func (c *Ctx) memPeek(st *State, name string) Term {
	if t, ok := st.mem[name]; ok {
		return t
	}
	if st.epoch == 0 || strings.HasPrefix(name, "G_") {
		return c.memInit[name]
	}
	return c.epochMem(st.epoch, name)
}

type baseArr struct {
	arr   Term
	bound int
}

// groundHeap instantiates the heap well-formedness axioms at one address
// (what E-matching on the quantified axioms would produce for a load).
func (c *Ctx) groundHeap(name string, addr Term, valSort string) {
	if c.inQuant > 0 {
		c.needQuantHeap = true
		return
	}
	for _, b := range c.baseArrays[name] {
		key := "gh|" + b.arr.S + "|" + addr.S
		if c.assumed[key] {
			continue
		}
		c.assumed[key] = true
		sel := Select(b.arr, addr)
		if z, ok := c.zeroOfSort(valSort); ok {
			c.assumes = append(c.assumes, Assume{declPos: len(c.decls), groundAx: true, why: "unallocated cells are zero (instance)",
				t: Implies(ILe(IntLitI(int64(b.bound)), RefRoot(addr)), Eq(sel, z))})
		}
		if valSort == SRef {
			c.assumes = append(c.assumes, Assume{declPos: len(c.decls), groundAx: true, why: "stored references are allocated (instance)",
				t: And(ILt(RefRoot(sel), IntLitI(int64(b.bound))), ILe(IntLitI(0), RefRoot(sel)))})
		}
	}
}

type epochInfo struct {
	bound  int
	parts  []epochPart // merge epoch
	frame  bool        // allocation frame: equals the parent epoch's memory on objects older than frameB
	parent int
	frameB int
}

type frameRec struct {
	old   Term
	bound int
}
type epochPart struct {
	reach Term
	epoch int
}

func (c *Ctx) newEpoch(bound int) int {
	c.epochs = append(c.epochs, epochInfo{bound: bound})
	return len(c.epochs)
}

// epochMem: value of a memory not written since havoc event e.
func (c *Ctx) epochMem(e int, name string) Term {
	key := fmt.Sprintf("%d/%s", e, name)
	if t, ok := c.epochCache[key]; ok {
		return t
	}
	info := c.epochs[e-1]
	var t Term
	if len(info.parts) > 0 {
		get := func(p epochPart) Term {
			if p.epoch == 0 {
				return c.memInit[name]
			}
			return c.epochMem(p.epoch, name)
		}
		t = get(info.parts[len(info.parts)-1])
		parts := []Term{t}
		for i := len(info.parts) - 2; i >= 0; i-- {
			pt := get(info.parts[i])
			parts = append(parts, pt)
			t = Ite(info.parts[i].reach, pt, t)
		}
		t = c.Def("ep."+name, t)
		c.mergeOf[t.S] = parts
	} else if info.frame {
		as := c.memSort[name]
		var old Term
		if info.parent == 0 {
			old = c.memInit[name]
		} else {
			old = c.epochMem(info.parent, name)
		}
		t = c.framedCopy(name, as, old, info.frameB, info.bound)
	} else {
		as := c.memSort[name]
		t = c.Fresh("hv."+name, as)
		_, vs := arrSorts(as)
		if !strings.HasPrefix(name, "MAP") {
			c.memAxioms(t, vs, info.bound, name)
		}
	}
	c.epochCache[key] = t
	return t
}

// mapValueAxiom: references stored as map values denote allocated objects.
func (c *Ctx) mapValueAxiom(m Term, name string, bound int) {
	if !strings.HasPrefix(name, "MAPV_") {
		return
	}
	_, inner := arrSorts(m.Sort)
	ks, vs := arrSorts(inner)
	if vs != SRef {
		return
	}
	c.assumes = append(c.assumes, Assume{declPos: len(c.decls), heapAx: true, why: "references stored in maps are allocated: " + name,
		t: raw(fmt.Sprintf("(forall ((r Ref) (k %s)) (! (and (< (rroot (select (select %s r) k)) %d) (>= (rroot (select (select %s r) k)) 0)) :pattern ((select (select %s r) k))))",
			ks, m.S, bound, m.S, m.S), SBool)})
}

// memAxioms: cells of not-yet-allocated objects are zero; stored references
// point to already-allocated objects.
func (c *Ctx) memAxioms(m Term, valSort string, bound int, name string) {
	c.baseArrays[name] = append(c.baseArrays[name], baseArr{m, bound})
	if strings.HasPrefix(name, "E_") {
		_, es := arrSorts(valSort) // valSort is (Array Idx s)
		if z, ok := c.zeroOfSort(es); ok {
			c.assumes = append(c.assumes, Assume{declPos: len(c.decls), heapAx: true, why: "unallocated elements are zero: " + name,
				t: raw(fmt.Sprintf("(forall ((r Ref)) (! (=> (>= (rroot r) %d) (= (select %s r) ((as const %s) %s))) :pattern ((select %s r))))",
					bound, m.S, valSort, z.S, m.S), SBool)})
		}
		if es == SRef {
			c.assumes = append(c.assumes, Assume{declPos: len(c.decls), heapAx: true, why: "stored references are allocated: " + name,
				t: raw(fmt.Sprintf("(forall ((r Ref) (i %s)) (! (and (< (rroot (select (select %s r) i)) %d) (>= (rroot (select (select %s r) i)) 0)) :pattern ((select (select %s r) i))))",
					c.idxSort, m.S, bound, m.S, m.S), SBool)})
		}
		return
	}
	if z, ok := c.zeroOfSort(valSort); ok {
		c.usesQuant = true
		c.assumes = append(c.assumes, Assume{declPos: len(c.decls), heapAx: true, why: "unallocated cells are zero: " + name,
			t: raw(fmt.Sprintf("(forall ((r Ref)) (! (=> (>= (rroot r) %d) (= (select %s r) %s)) :pattern ((select %s r))))",
				bound, m.S, z.S, m.S), SBool)})
	}
	if valSort == SRef {
		c.assumes = append(c.assumes, Assume{declPos: len(c.decls), heapAx: true, why: "stored references are allocated: " + name,
			t: raw(fmt.Sprintf("(forall ((r Ref)) (! (and (< (rroot (select %s r)) %d) (>= (rroot (select %s r)) 0)) :pattern ((select %s r))))",
				m.S, bound, m.S, m.S), SBool)})
	}
}

func (c *Ctx) memSet(st *State, name string, t Term) {
	d := c.Def(name, t)
	st.mem[name] = d
	if strings.HasPrefix(t.S, "(store ") {
		if base, addr, val, ok := splitStore(t); ok {
			c.storeOf[d.S] = storeRec{base, addr, val}
		}
	}
}

type storeRec struct{ base, addr, val Term }

type copyRec struct {
	e, dBase, dOff, n, sBase, sOff Term
	zero                           bool
	zeroVal                        Term
}

// splitStore: (store base addr value) -> base, addr
func splitStore(t Term) (Term, Term, Term, bool) {
	body := t.S[len("(store ") : len(t.S)-1]
	var parts []string
	depth, start := 0, 0
	for i, ch := range body {
		switch ch {
		case '(':
			depth++
		case ')':
			depth--
		case ' ':
			if depth == 0 {
				parts = append(parts, body[start:i])
				start = i + 1
			}
		}
	}
	parts = append(parts, body[start:])
	if len(parts) != 3 {
		return Term{}, Term{}, Term{}, false
	}
	return raw(parts[0], t.Sort), raw(parts[1], SRef), raw(parts[2], ""), true
}

// refClass classifies an address syntactically: 1 = freshly allocated object
// (concrete root >= birthBase), -1 = object allocated before entry (rooted at an
// input reference or a global), 0 = unknown.
func (c *Ctx) refClass(addr Term) int {
	t := addr
	if st, has := c.refStruct[addr.S]; has {
		t = st
	}
	if c.oldRefs[t.S] {
		return -1
	}
	root, _, ok := splitRef(t)
	if !ok {
		return 0
	}
	var n int64
	if _, err := fmt.Sscanf(root.S, "%d", &n); err == nil && !strings.HasPrefix(root.S, "(") {
		if n >= birthBase {
			return 1
		}
		return -1
	}
	if strings.HasPrefix(root.S, "(rroot ") {
		inner := root.S[7 : len(root.S)-1]
		if c.oldRefs[inner] {
			return -1
		}
		return c.refClass(raw(inner, SRef))
	}
	return 0
}

// distinctAddr: syntactically certain that two addresses differ.
func (c *Ctx) distinctAddr(a, b Term) bool {
	ca, cb := c.refClass(a), c.refClass(b)
	if ca*cb == -1 {
		return true
	}
	ta, tb := a, b
	if st, has := c.refStruct[a.S]; has {
		ta = st
	}
	if st, has := c.refStruct[b.S]; has {
		tb = st
	}
	ra, pa, oka := splitRef(ta)
	rb, pb, okb := splitRef(tb)
	if oka && okb && ra.S == rb.S && strings.HasPrefix(pa.S, "(psub ") && strings.HasPrefix(pb.S, "(psub ") {
		ia, ib := strings.LastIndex(pa.S, " "), strings.LastIndex(pb.S, " ")
		if pa.S[:ia] == pb.S[:ib] && pa.S[ia:] != pb.S[ib:] {
			return true // same parent, different field
		}
	}
	return false
}

// skipStores walks back over stores that cannot affect a read at addr.
func (c *Ctx) noteQuantLoad(t Term) {
	if n := len(c.quantLoads); n > 0 && c.inQuant > 0 {
		c.quantLoads[n-1] = append(c.quantLoads[n-1], t)
	}
}

func (c *Ctx) skipStores(m Term, addr Term) Term {
	return c.readBase(m, addr, 0)
}

// readBase: an older version of memory m that is certain to agree with m at owner (the address
// for flat memories, the array for element memories): stores to syntactically different objects
// are skipped, allocation frames are looked through for objects allocated before entry, and a
// merge whose branches all reduce to the same version is that version.
func (c *Ctx) readBase(m Term, owner Term, depth int) Term {
	for ; depth < 4096; depth++ {
		if rec, ok := c.storeOf[m.S]; ok {
			if c.distinctAddr(rec.addr, owner) {
				m = rec.base
				continue
			}
			return m
		}
		if fr, ok := c.frameRecs[m.S]; ok {
			if c.refClass(owner) == -1 {
				m = fr.old
				continue
			}
			return m
		}
		if parts, ok := c.mergeOf[m.S]; ok && len(parts) > 0 {
			common := c.readBase(parts[0], owner, depth+1)
			for _, p := range parts[1:] {
				if r := c.readBase(p, owner, depth+1); r.S != common.S {
					return m
				}
			}
			return common
		}
		return m
	}
	return m
}

func (c *Ctx) newObj() Term {
	c.nextObj++
	return MkRef(IntLitI(int64(birthBase+c.nextObj)), raw("pnil", SPath))
}

// assumeOldRef: an input reference denotes an object allocated before entry.
func (c *Ctx) assumeOldRef(r Term) {
	c.Assume(TTrue, And(ILt(RefRoot(r), IntLitI(int64(birthBase+c.loopGap()))), ILe(IntLitI(0), RefRoot(r))), "input reference is allocated")
}

func (c *Ctx) loopGap() int { return 0 }

type leaf struct {
	suffix string
	sort   string
}

// cellLeaves: how a non-aggregate cell type is spread over memories.
func (c *Ctx) cellLeaves(t types.Type) []leaf {
	switch t.Underlying().(type) {
	case *types.Slice:
		return []leaf{{"#b", SRef}, {"#o", c.idxSort}, {"#l", c.idxSort}, {"#c", c.idxSort}}
	case *types.Interface:
		return []leaf{{"#tag", SInt}, {"#pay", SRef}}
	}
	s := c.scalarSort(t)
	if s == "" {
		panic(unsupported("cell of type %s", t))
	}
	return []leaf{{"", s}}
}

func (c *Ctx) memName(t types.Type) string { return "M_" + typeKey(t) }

// ---- leaf cell access ---------------------------------------------------------
// Scalar cells live in two kinds of memory:
//   M_T : Ref -> sort                 cells addressed by a full reference (fields, boxed values)
//   E_T : Ref -> (Idx -> sort)        scalar elements of arrays/slices: array address, then index
// Keeping element indices out of the Ref datatype leaves index reasoning to the
// bit-vector/arithmetic solver alone.

// splitElem recognises an element address elem(arr, idx).
func (c *Ctx) splitElem(addr Term) (arr, idx Term, ok bool) {
	t := addr
	if st, has := c.refStruct[addr.S]; has {
		t = st
	}
	root, path, isMk := splitRef(t)
	if !isMk || !strings.HasPrefix(path.S, "(pelem ") {
		return Term{}, Term{}, false
	}
	body := path.S[len("(pelem ") : len(path.S)-1]
	depth := 0
	for i, ch := range body {
		switch ch {
		case '(':
			depth++
		case ')':
			depth--
		case ' ':
			if depth == 0 {
				pp := body[:i]
				// mkref(rroot X, rpath X) is X
				if strings.HasPrefix(root.S, "(rroot ") && strings.HasPrefix(pp, "(rpath ") && root.S[7:] == pp[7:] {
					return raw(root.S[7:len(root.S)-1], SRef), raw(body[i+1:], c.idxSort), true
				}
				return MkRef(root, raw(pp, SPath)), raw(body[i+1:], c.idxSort), true
			}
		}
	}
	return Term{}, Term{}, false
}

// isStructural: the address is syntactically not an element address.
func (c *Ctx) isStructural(addr Term) bool {
	t := addr
	if st, has := c.refStruct[addr.S]; has {
		t = st
	}
	_, path, isMk := splitRef(t)
	return isMk && (path.S == "pnil" || strings.HasPrefix(path.S, "(psub "))
}

func (c *Ctx) elemSort(valSort string) string { return SArr(SRef, SArr(c.idxSort, valSort)) }

func dynArr(addr Term) Term {
	return raw(fmt.Sprintf("(mkref (rroot %s) (pelemp (rpath %s)))", addr.S, addr.S), SRef)
}
func (c *Ctx) dynIdx(addr Term) Term {
	return raw(fmt.Sprintf("(pelemi (rpath %s))", addr.S), c.idxSort)
}
func isElemTerm(addr Term) Term {
	return raw(fmt.Sprintf("((_ is pelem) (rpath %s))", addr.S), SBool)
}

// cellRead reads the leaf cell `name` (value sort vs) at addr.
func (c *Ctx) cellRead(st *State, name, vs string, addr Term) Term {
	if arr, idx, ok := c.splitElem(addr); ok {
		return c.elemRead(st, name, vs, arr, idx)
	}
	fm := c.skipStores(c.memGet(st, name, vs), addr)
	c.groundFrames(fm, addr)
	flat := Select(fm, addr)
	c.noteQuantLoad(flat)
	if vs == SRef && st.epoch == 0 {
		if init, ok := c.memInit[name]; ok && init.S == fm.S {
			c.oldRefs[flat.S] = true // references stored in the initial heap denote objects allocated before entry
		}
	}
	c.groundHeap(name, addr, vs)
	if c.isStructural(addr) {
		return flat
	}
	// unknown pointer: may address an array element
	return Ite(isElemTerm(addr), c.elemRead(st, name, vs, dynArr(addr), c.dynIdx(addr)), flat)
}

func (c *Ctx) elemRead(st *State, name, vs string, arr, idx Term) Term {
	en := "E" + name[1:]
	m := c.skipStores(c.elemGet(st, en, vs), arr)
	c.groundFrames(m, arr)
	c.groundElem(en, arr, idx, vs)
	c.groundCopies(m, idx, vs)
	r := Select(Select(m, arr), idx)
	c.noteQuantLoad(r)
	if vs == SRef && st.epoch == 0 {
		if init, ok := c.memInit[en]; ok && init.S == m.S {
			c.oldRefs[r.S] = true
		}
	}
	return r
}

func (c *Ctx) elemGet(st *State, en, vs string) Term {
	if t, ok := st.mem[en]; ok {
		return t
	}
	c.declareMem(en, c.elemSort(vs))
	t := c.memPeek(st, en)
	st.mem[en] = t
	return t
}

func (c *Ctx) cellWrite(st *State, name, vs string, addr, v Term) {
	if arr, idx, ok := c.splitElem(addr); ok {
		c.elemWrite(st, name, vs, arr, idx, v)
		return
	}
	if c.isStructural(addr) {
		c.memSet(st, name, Store(c.memGet(st, name, vs), addr, v))
		return
	}
	// unknown pointer: update whichever memory holds the cell
	isE := isElemTerm(addr)
	m := c.memGet(st, name, vs)
	// both arms are named memories, so that reads can walk through this write (store chain / frames)
	c.memSet(st, name, Store(m, addr, v))
	stored := st.mem[name]
	c.memSet(st, name, Ite(isE, m, stored))
	if st.mem[name].S != m.S && st.mem[name].S != stored.S {
		c.mergeOf[st.mem[name].S] = []Term{m, stored}
	}
	en := "E" + name[1:]
	e := c.elemGet(st, en, vs)
	arr, idx := dynArr(addr), c.dynIdx(addr)
	c.memSet(st, en, Store(e, arr, Store(Select(e, arr), idx, v)))
	estored := st.mem[en]
	c.memSet(st, en, Ite(isE, estored, e))
	if st.mem[en].S != e.S && st.mem[en].S != estored.S {
		c.mergeOf[st.mem[en].S] = []Term{estored, e}
	}
}

func (c *Ctx) elemWrite(st *State, name, vs string, arr, idx, v Term) {
	en := "E" + name[1:]
	e := c.elemGet(st, en, vs)
	c.memSet(st, en, Store(e, arr, Store(Select(e, arr), idx, v)))
}

// groundElem instantiates the heap axioms of an element memory at (arr, idx).
func (c *Ctx) groundElem(en string, arr, idx Term, vs string) {
	if c.inQuant > 0 {
		c.needQuantHeap = true
		return
	}
	for _, b := range c.baseArrays[en] {
		key := "ge|" + b.arr.S + "|" + arr.S + "|" + idx.S
		if c.assumed[key] {
			continue
		}
		c.assumed[key] = true
		sel := Select(Select(b.arr, arr), idx)
		if z, ok := c.zeroOfSort(vs); ok {
			c.assumes = append(c.assumes, Assume{declPos: len(c.decls), groundAx: true, why: "unallocated elements are zero (instance)",
				t: Implies(ILe(IntLitI(int64(b.bound)), RefRoot(arr)), Eq(sel, z))})
		}
		if vs == SRef {
			c.assumes = append(c.assumes, Assume{declPos: len(c.decls), groundAx: true, why: "stored references are allocated (instance)",
				t: And(ILt(RefRoot(sel), IntLitI(int64(b.bound))), ILe(IntLitI(0), RefRoot(sel)))})
		}
	}
}

// load reads a value of Go type t at address addr.
func (c *Ctx) load(st *State, addr Term, t types.Type) *Val {
	switch u := t.Underlying().(type) {
	case *types.Struct:
		v := &Val{K: KTuple, Ty: t}
		for i := 0; i < u.NumFields(); i++ {
			v.F = append(v.F, c.load(st, RefSub(addr, i), u.Field(i).Type()))
		}
		return v
	case *types.Array:
		if u.Len() > 128 {
			panic(unsupported("load of array value of length %d", u.Len()))
		}
		v := &Val{K: KTuple, Ty: t}
		for i := int64(0); i < u.Len(); i++ {
			v.F = append(v.F, c.load(st, RefElem(addr, c.idxLit(i)), u.Elem()))
		}
		return v
	case *types.Slice:
		n := c.memName(t)
		v := &Val{K: KSlice, Ty: t, Base: c.cellRead(st, n+"#b", SRef, addr), Off: c.cellRead(st, n+"#o", c.idxSort, addr),
			Len: c.cellRead(st, n+"#l", c.idxSort, addr), Cap: c.cellRead(st, n+"#c", c.idxSort, addr)}
		v = c.defVal("ld", v)
		z := c.idxLit(0)
		lim := c.idxLit(1 << 48)
		if c.inQuant == 0 {
			c.Assume(st.reach, And(c.idxLe(z, v.Off), c.idxLe(z, v.Len), c.idxLe(v.Len, v.Cap), c.idxLt(v.Cap, lim), c.idxLt(v.Off, lim),
				Implies(Eq(v.Base, TNull), Eq(v.Cap, z))), "slice header in memory is well-formed")
		}
		return v
	case *types.Interface:
		n := c.memName(t)
		iv := &Val{K: KIface, Ty: t, Tag: c.cellRead(st, n+"#tag", SInt, addr), Pay: c.cellRead(st, n+"#pay", SRef, addr)}
		if c.inQuant == 0 {
			c.Assume(st.reach, And(ILe(IntLitI(0), iv.Tag), Implies(Eq(iv.Tag, IntLitI(0)), Eq(iv.Pay, TNull))), "interface value in memory is well-formed")
		}
		return iv
	case *types.Signature:
		return scalar(c.cellRead(st, c.memName(t), SRef, addr), t)
	}
	s := c.scalarSort(t)
	if s == "" {
		panic(unsupported("load of type %s", t))
	}
	v := scalar(c.cellRead(st, c.memName(t), s, addr), t)
	if c.intMode && c.inQuant == 0 {
		if w, signed, ok := intInfo(t); ok {
			lo, hi := typeRange(w, signed)
			c.Assume(st.reach, And(ILe(IntLit(lo), v.T), ILe(v.T, IntLit(hi))), "type range of loaded integer")
		}
	}
	return v
}

// store writes v (of Go type t) at addr.
func (c *Ctx) store(st *State, addr Term, t types.Type, v *Val) {
	switch u := t.Underlying().(type) {
	case *types.Struct:
		for i := 0; i < u.NumFields(); i++ {
			c.store(st, RefSub(addr, i), u.Field(i).Type(), v.F[i])
		}
		return
	case *types.Array:
		for i := int64(0); i < u.Len(); i++ {
			c.store(st, RefElem(addr, c.idxLit(i)), u.Elem(), v.F[i])
		}
		return
	case *types.Slice:
		n := c.memName(t)
		c.cellWrite(st, n+"#b", SRef, addr, v.Base)
		c.cellWrite(st, n+"#o", c.idxSort, addr, v.Off)
		c.cellWrite(st, n+"#l", c.idxSort, addr, v.Len)
		c.cellWrite(st, n+"#c", c.idxSort, addr, v.Cap)
		return
	case *types.Interface:
		n := c.memName(t)
		c.cellWrite(st, n+"#tag", SInt, addr, v.Tag)
		c.cellWrite(st, n+"#pay", SRef, addr, v.Pay)
		return
	case *types.Signature:
		if v.K == KFunc {
			c.note("function value stored to memory is abstracted to an opaque reference")
			c.cellWrite(st, c.memName(t), SRef, addr, c.Fresh("fnref", SRef))
			return
		}
	}
	s := c.scalarSort(t)
	if s == "" {
		panic(unsupported("store of type %s", t))
	}
	c.cellWrite(st, c.memName(t), s, addr, v.T)
}

// mergeStates joins states arriving over several edges.
func (c *Ctx) mergeStates(sts []*State) *State {
	var live []*State
	for _, s := range sts {
		if s != nil && !s.reach.IsFalse() {
			live = append(live, s)
		}
	}
	if len(live) == 0 {
		return &State{reach: TFalse, mem: map[string]Term{}}
	}
	if len(live) == 1 {
		return live[0].clone()
	}
	out := &State{mem: map[string]Term{}, epoch: live[0].epoch}
	// diamond: two arms of the same branch re-join => the reach condition is the parent's again
	diamond := false
	if len(live) == 2 && len(live[0].br) > 0 && len(live[0].br) == len(live[1].br) {
		a, b := live[0].br[len(live[0].br)-1], live[1].br[len(live[1].br)-1]
		if a.parent.S == b.parent.S && (Not(a.cond).S == b.cond.S || Not(b.cond).S == a.cond.S) {
			diamond = true
			out.reach = a.parent
			out.br = append([]brTag(nil), live[0].br[:len(live[0].br)-1]...)
			// select on the local branch literal instead of the full path condition
			l0 := *live[0]
			l0.reach = a.cond
			live = []*State{&l0, live[1]}
		}
	}
	for _, s := range live {
		if s.epoch != out.epoch {
			var parts []epochPart
			for _, x := range live {
				parts = append(parts, epochPart{x.reach, x.epoch})
			}
			c.epochs = append(c.epochs, epochInfo{parts: parts})
			out.epoch = len(c.epochs)
			break
		}
	}
	var rs []Term
	for _, s := range live {
		rs = append(rs, s.reach)
	}
	for k := range live[0].nonnil {
		all := true
		for _, s := range live[1:] {
			if !s.nonnil[k] {
				all = false
			}
		}
		if all {
			if out.nonnil == nil {
				out.nonnil = map[string]bool{}
			}
			out.nonnil[k] = true
		}
	}
	if !diamond {
		out.reach = c.Def("reach", Or(rs...))
	}
	names := map[string]bool{}
	for _, s := range live {
		for k := range s.mem {
			names[k] = true
		}
	}
	var keys []string
	for k := range names {
		keys = append(keys, k)
	}
	sort.Strings(keys)
	for _, k := range keys {
		// value in a state lacking the memory is its initial value
		get := func(s *State) Term { return c.memPeek(s, k) }
		acc := get(live[len(live)-1])
		same := true
		for _, s := range live {
			if get(s).S != acc.S {
				same = false
			}
		}
		if !same {
			var parts []Term
			for _, s := range live {
				parts = append(parts, get(s))
			}
			for i := len(live) - 2; i >= 0; i-- {
				acc = Ite(live[i].reach, get(live[i]), acc)
			}
			acc = c.Def(k, acc)
			c.mergeOf[acc.S] = parts
		}
		out.mem[k] = acc
	}
	// loop-variant overrides
	ovKeys := map[ssa.Value]bool{}
	for _, s := range live {
		for k := range s.ov {
			ovKeys[k] = true
		}
	}
	if len(ovKeys) > 0 {
		out.ov = map[ssa.Value]*Val{}
		for k := range ovKeys {
			var acc *Val
			for i := len(live) - 1; i >= 0; i-- {
				v, ok := live[i].ov[k]
				if !ok {
					continue
				}
				if acc == nil {
					acc = v
				} else {
					acc = c.iteVal(live[i].reach, v, acc)
				}
			}
			out.ov[k] = acc
		}
	}
	return out
}

// adopt continues this state with the contents of r (after a call or a merge).
func (s *State) adopt(r *State) {
	if r.reach.S != s.reach.S {
		s.br = nil
	}
	s.reach, s.mem, s.epoch = r.reach, r.mem, r.epoch
	s.nonnil = r.nonnil
}

// groundCopies instantiates, at index idx, the defining axiom of every
// symbolic-range copy found in the store chain of an element memory.
func (c *Ctx) groundCopies(m Term, idx Term, vs string) {
	if c.inQuant > 0 {
		c.needQuantHeap = true
		return
	}
	for depth := 0; depth < 4096; depth++ {
		if parts, isMerge := c.mergeOf[m.S]; isMerge {
			for _, p := range parts {
				c.groundCopies(p, idx, vs)
			}
			return
		}
		rec, ok := c.storeOf[m.S]
		if !ok {
			return
		}
		if cr, isCopy := c.copyRecs[rec.val.S]; isCopy {
			key := "gc|" + rec.val.S + "|" + idx.S
			if !c.assumed[key] {
				c.assumed[key] = true
				na := raw(rec.val.S, SArr(c.idxSort, vs))
				inWin := And(c.idxLe(cr.dOff, idx), c.idxLt(idx, c.idxAdd(cr.dOff, cr.n)))
				if cr.zero {
					c.assumes = append(c.assumes, Assume{declPos: len(c.decls), why: "clear of a symbolic range (instance)",
						t: Eq(Select(na, idx), Ite(inWin, cr.zeroVal, Select(Select(cr.e, cr.dBase), idx)))})
					c.groundCopies(cr.e, idx, vs)
				} else {
					srcIdx := c.idxAdd(cr.sOff, c.idxSub(idx, cr.dOff))
					src := Select(Select(cr.e, cr.sBase), srcIdx)
					c.assumes = append(c.assumes, Assume{declPos: len(c.decls), why: "copy of a symbolic range (instance)",
						t: Eq(Select(na, idx), Ite(inWin, src, Select(Select(cr.e, cr.dBase), idx)))})
					// the source may itself be a copied array
					c.groundCopies(cr.e, srcIdx, vs)
					c.groundCopies(cr.e, idx, vs)
				}
			}
		}
		m = rec.base
	}
}

// framedCopy: a memory that agrees with `old` on every object allocated before frameB and is
// unconstrained on younger objects (those a callee allocated). The agreement is instantiated at
// reads (groundFrames).
func (c *Ctx) framedCopy(name, as string, old Term, frameB, zeroB int) Term {
	t := c.Fresh("fr."+name, as)
	c.frameRecs[t.S] = frameRec{old, frameB}
	_, vs := arrSorts(as)
	if !strings.HasPrefix(name, "MAP") {
		c.memAxioms(t, vs, zeroB, name)
	} else {
		c.mapValueAxiom(t, name, zeroB)
	}
	c.assumes = append(c.assumes, Assume{declPos: len(c.decls), frameAx: true, why: "a call leaves the cells of previously allocated objects unchanged: " + name,
		t: raw(fmt.Sprintf("(forall ((r Ref)) (! (=> (< (rroot r) %d) (= (select %s r) (select %s r))) :pattern ((select %s r))))",
			frameB, t.S, old.S, t.S), SBool)})
	return t
}

// allocFrame is applied after a call through a contract: objects the callee allocated (ids in
// [frameB, frameB+gap)) have unconstrained contents; everything older keeps its value unless the
// modifies clause already havocked it.
func (c *Ctx) allocFrame(st *State) {
	frameB := birthBase + c.nextObj + 1
	c.nextObj += 256
	zeroB := birthBase + c.nextObj + 1
	// in name order: the fresh names given to the framed copies (and with them the query text and its
	// cache key) must not depend on Go's map iteration order
	var names []string
	for name := range st.mem {
		names = append(names, name)
	}
	sort.Strings(names)
	for _, name := range names {
		cur := st.mem[name]
		if strings.HasPrefix(name, "G_") {
			continue
		}
		as, ok := c.memSort[name]
		if !ok {
			continue
		}
		st.mem[name] = c.framedCopy(name, as, cur, frameB, zeroB)
	}
	c.epochs = append(c.epochs, epochInfo{bound: zeroB, frame: true, parent: st.epoch, frameB: frameB})
	st.epoch = len(c.epochs)
}

// groundFrames instantiates allocation-frame agreements at a read of root-owner `owner`
// (the address for flat memories, the array for element memories).
func (c *Ctx) groundFrames(m Term, owner Term) {
	if c.inQuant > 0 {
		c.needQuantHeap = true // the quantified frame axioms of framedCopy are needed
		return
	}
	for depth := 0; depth < 4096; depth++ {
		if parts, isMerge := c.mergeOf[m.S]; isMerge {
			for _, p := range parts {
				c.groundFrames(p, owner)
			}
			return
		}
		if fr, ok := c.frameRecs[m.S]; ok {
			key := "gf|" + m.S + "|" + owner.S
			if !c.assumed[key] {
				c.assumed[key] = true
				c.assumes = append(c.assumes, Assume{declPos: len(c.decls), why: "a call leaves the cells of previously allocated objects unchanged (instance)",
					t: Implies(ILt(RefRoot(owner), IntLitI(int64(fr.bound))), Eq(Select(m, owner), Select(fr.old, owner)))})
			}
			m = fr.old
			continue
		}
		rec, ok := c.storeOf[m.S]
		if !ok {
			return
		}
		m = rec.base
	}
}
