package main

// Solver portfolio: z3-new 5.1, z3 4.8.12, cvc5 1.0, raced per obligation.

import (
	"context"
	"crypto/sha256"
	"encoding/hex"
	"encoding/json"
	"fmt"
	"os"
	"os/exec"
	"path/filepath"
	"strings"
	"sync"
	"time"
)

type solverSpec struct {
	name string
	args func(file string, timeoutS int) []string
}

var solvers = []solverSpec{
	{"z3-new", func(f string, t int) []string { return []string{"z3-new", fmt.Sprintf("-T:%d", t), f} }},
	{"z3", func(f string, t int) []string { return []string{"z3", fmt.Sprintf("-T:%d", t), f} }},
	{"cvc5", func(f string, t int) []string {
		return []string{"cvc5", "--produce-models", fmt.Sprintf("--tlimit=%d", t*1000), f}
	}},
}

type verdict struct {
	Answer string  `json:"answer"` // sat unsat unknown
	Solver string  `json:"solver"`
	Secs   float64 `json:"secs"`
	Output string  `json:"output"`
}

var cacheDir = "/verif/.cache"
var useCache = true

// at most this many solver processes at a time (the sandbox has 16 cores)
var solverSem = make(chan struct{}, 16)

func runSolver(ctx context.Context, s solverSpec, file string, timeoutS int) verdict {
	select {
	case solverSem <- struct{}{}:
		defer func() { <-solverSem }()
	case <-ctx.Done():
		return verdict{Answer: "unknown", Solver: s.name}
	}
	t0 := time.Now()
	args := s.args(file, timeoutS)
	cmd := exec.CommandContext(ctx, args[0], args[1:]...)
	out, _ := cmd.CombinedOutput()
	secs := time.Since(t0).Seconds()
	text := string(out)
	first := strings.TrimSpace(strings.SplitN(text, "\n", 2)[0])
	ans := "unknown"
	switch first {
	case "sat", "unsat":
		ans = first
	}
	return verdict{Answer: ans, Solver: s.name, Secs: secs, Output: text}
}

// decide runs the portfolio on one query. Stage 1: z3-new alone, short
// timeout. Stage 2: all three raced with the full timeout.
func decide(query string, timeoutS int, usesLambda bool) verdict {
	h := sha256.Sum256([]byte(query))
	key := hex.EncodeToString(h[:16])
	vfile := filepath.Join(cacheDir, "v", key+".json")
	if useCache {
		if data, err := os.ReadFile(vfile); err == nil {
			var v verdict
			if json.Unmarshal(data, &v) == nil && v.Answer != "unknown" {
				v.Solver += "(cached)"
				return v
			}
		}
	}
	qfile := filepath.Join(cacheDir, "q", key+".smt2")
	os.MkdirAll(filepath.Dir(qfile), 0o755)
	os.MkdirAll(filepath.Dir(vfile), 0o755)
	os.WriteFile(qfile, []byte(query), 0o644)
	defer os.Remove(qfile)
	total := 0.0
	race := func(set []solverSpec, tmo int) verdict {
		ctx, cancel := context.WithCancel(context.Background())
		defer cancel()
		ch := make(chan verdict, len(set))
		for _, s := range set {
			go func(s solverSpec) { ch <- runSolver(ctx, s, qfile, tmo) }(s)
		}
		var last verdict
		for range set {
			r := <-ch
			if r.Answer != "unknown" {
				return r
			}
			last = r
		}
		return last
	}
	// stage 1: z3-new and cvc5 raced with a short timeout (they complement each other);
	// stage 2: all three with the full timeout
	stage1 := 4
	if timeoutS < stage1 {
		stage1 = timeoutS
	}
	t1 := time.Now()
	v := race([]solverSpec{solvers[0], solvers[2]}, stage1)
	total += time.Since(t1).Seconds()
	if v.Answer == "unknown" && timeoutS > stage1 {
		t2 := time.Now()
		v = race(solvers, timeoutS)
		total += time.Since(t2).Seconds()
	}
	v.Secs = total
	if v.Answer != "unknown" && useCache {
		data, _ := json.Marshal(v)
		os.WriteFile(vfile, data, 0o644)
	}
	return v
}

// solveAll discharges obligations in parallel.
func solveAll(obls []*Obligation, timeoutS int, workers int) {
	var wg sync.WaitGroup
	ch := make(chan *Obligation)
	for i := 0; i < workers; i++ {
		wg.Add(1)
		go func() {
			defer wg.Done()
			for o := range ch {
				solveOne(o, timeoutS)
			}
		}()
	}
	// helper lemmas first: the obligations that use them read their verdicts
	var rest []*Obligation
	var wg0 sync.WaitGroup
	ch0 := make(chan *Obligation)
	for i := 0; i < workers; i++ {
		wg0.Add(1)
		go func() {
			defer wg0.Done()
			for o := range ch0 {
				solveOne(o, timeoutS)
			}
		}()
	}
	for _, o := range obls {
		if o.Helper {
			if o.Verdict == "" {
				ch0 <- o
			}
		} else {
			rest = append(rest, o)
		}
	}
	close(ch0)
	wg0.Wait()
	for _, o := range rest {
		ch <- o
	}
	close(ch)
	wg.Wait()
}

func solveOne(o *Obligation, timeoutS int) {
	if !o.WantSat && o.Goal.IsTrue() {
		o.Verdict, o.Solver = "discharged", "folded"
		return
	}
	if o.WantSat && o.Goal.IsFalse() {
		o.Verdict, o.Solver = "failed", "folded"
		return
	}
	q := o.Query(true)
	o.Bytes = len(q)
	if len(q) > 4<<20 {
		o.Verdict = "undecided"
		o.Output = "query exceeds the 4 MB cap"
		return
	}
	if o.WantSat {
		// vacuity guard: satisfiability under quantified heap axioms is usually
		// "unknown", so the guard is decided without them (a weaker sanity check)
		q2 := o.QueryF(true, true)
		v2 := decide(q2, min(timeoutS, 5), false)
		o.Solver, o.Secs, o.Output = v2.Solver, v2.Secs, trunc(v2.Output, 2000)
		switch v2.Answer {
		case "sat":
			o.Verdict = "discharged"
		case "unsat":
			o.Verdict = "failed"
		default:
			o.Verdict = "undecided"
		}
		return
	}
	var v verdict
	if strings.Contains(q, "(mulx") && !o.absMul {
		// first with products abstracted (a proof under the abstraction is a proof)
		o.absMul = true
		qa := o.Query(true)
		o.absMul = false
		va := decide(qa, min(timeoutS, 5), false)
		if va.Answer == "unsat" {
			va.Solver += "(products abstracted)"
			v = va
		}
	}
	if o.expectFail && timeoutS > 8 {
		timeoutS = 8
	}
	if v.Answer == "" && !o.noHeapAx && !o.expectFail {
		// first without the quantified heap axioms, then also with the optional ground
		// instances (fewer assumptions: a proof stays a proof)
		o.noHeapAx, o.noOptAx = true, true
		qa := o.Query(true)
		o.noOptAx = false
		qb := o.Query(true)
		o.noHeapAx = false
		for i, qq := range []string{qa, qb} {
			if qq == q || (i == 1 && qq == qa) {
				continue
			}
			va := decide(qq, min(timeoutS, 6), false)
			if va.Answer == "unsat" {
				va.Solver += "(quantified heap axioms dropped)"
				v = va
				break
			}
		}
	}
	if v.Answer == "" {
		v = decide(q, timeoutS, false)
	}
	o.Solver, o.Secs, o.Output = v.Solver, v.Secs, trunc(v.Output, 4000)
	switch {
	case v.Answer == "unsat":
		o.Verdict = "discharged"
	case v.Answer == "sat":
		o.Verdict = "failed"
		o.Model = v.Output
	default:
		o.Verdict = "undecided"
	}
	// undecided: split on the disjuncts of the path condition (one query per path)
	if o.Verdict == "undecided" && !o.WantSat && o.splitOn == "" && o.Reach.S != "" && !o.Reach.IsTrue() && !o.expectFail {
		leaves := o.Ctx.reachDisjuncts(o.Reach, 12)
		if len(leaves) > 1 {
			all := true
			var secs float64
			for _, l := range leaves {
				sub := *o
				sub.splitOn = l
				sub.Verdict = ""
				solveOne(&sub, timeoutS)
				secs += sub.Secs
				if sub.Verdict == "failed" {
					o.Verdict, o.Model, o.Output, o.Solver = "failed", sub.Model, sub.Output, sub.Solver
					all = false
					break
				}
				if sub.Verdict != "discharged" {
					all = false
					break
				}
			}
			if all {
				o.Verdict, o.Solver, o.Secs = "discharged", fmt.Sprintf("path-split(%d)", len(leaves)), secs
			}
		}
	}
	// a failure under lemma-weakened assumptions is re-decided with the full definitions
	if o.Verdict != "discharged" && !o.WantSat && !o.noHelpers {
		for _, h := range o.Helpers {
			if h.Verdict == "discharged" {
				o.noHelpers = true
				solveOne(o, timeoutS)
				return
			}
		}
	}
}
