package main

// SMT term construction with light constant folding.
// Terms are s-expression strings with a sort; literals carry their value so
// that loop unrolling and trivially-true obligations fold away.

import (
	"fmt"
	"math/big"
	"strings"
)

type Term struct {
	S    string
	Sort string
	C    *big.Int // literal value (bit-vector: unsigned value; Int: value)
	B    *bool    // literal bool
}

const (
	SBool = "Bool"
	SInt  = "Int"
	SRef  = "Ref"
	SPath = "Path"
	SStr  = "Str"
)

func SBV(w int) string        { return fmt.Sprintf("(_ BitVec %d)", w) }
func SArr(k, v string) string { return "(Array " + k + " " + v + ")" }
func isBV(s string) bool      { return strings.HasPrefix(s, "(_ BitVec ") }
func bvWidth(s string) int    { var w int; fmt.Sscanf(s, "(_ BitVec %d)", &w); return w }
func (t Term) IsConst() bool  { return t.C != nil || t.B != nil }
func (t Term) IsTrue() bool   { return t.B != nil && *t.B }
func (t Term) IsFalse() bool  { return t.B != nil && !*t.B }
func (t Term) String() string { return t.S }
func raw(s, sort string) Term { return Term{S: s, Sort: sort} }
func sexp(sort string, op string, args ...Term) Term {
	var sb strings.Builder
	sb.WriteByte('(')
	sb.WriteString(op)
	for _, a := range args {
		sb.WriteByte(' ')
		sb.WriteString(a.S)
	}
	sb.WriteByte(')')
	return Term{S: sb.String(), Sort: sort}
}

var (
	bTrue, bFalse = true, false
	TTrue         = Term{S: "true", Sort: SBool, B: &bTrue}
	TFalse        = Term{S: "false", Sort: SBool, B: &bFalse}
)

func Bool(b bool) Term {
	if b {
		return TTrue
	}
	return TFalse
}

func mask(w int) *big.Int {
	m := new(big.Int).Lsh(big.NewInt(1), uint(w))
	return m.Sub(m, big.NewInt(1))
}

func BVLit(v *big.Int, w int) Term {
	u := new(big.Int).And(v, mask(w)) // two's complement wrap for negatives
	if v.Sign() < 0 {
		u = new(big.Int).Add(v, new(big.Int).Lsh(big.NewInt(1), uint(w)))
		u.And(u, mask(w))
	}
	return Term{S: fmt.Sprintf("(_ bv%s %d)", u.String(), w), Sort: SBV(w), C: u}
}
func BVLitU(v uint64, w int) Term { return BVLit(new(big.Int).SetUint64(v), w) }
func BVLitI(v int64, w int) Term  { return BVLit(big.NewInt(v), w) }

func IntLit(v *big.Int) Term {
	s := v.String()
	if v.Sign() < 0 {
		s = "(- " + new(big.Int).Neg(v).String() + ")"
	}
	return Term{S: s, Sort: SInt, C: new(big.Int).Set(v)}
}
func IntLitI(v int64) Term { return IntLit(big.NewInt(v)) }

func signedVal(t Term) *big.Int {
	w := bvWidth(t.Sort)
	v := new(big.Int).Set(t.C)
	if v.Bit(w-1) == 1 {
		v.Sub(v, new(big.Int).Lsh(big.NewInt(1), uint(w)))
	}
	return v
}

func Not(a Term) Term {
	if a.B != nil {
		return Bool(!*a.B)
	}
	if strings.HasPrefix(a.S, "(not ") {
		return Term{S: a.S[5 : len(a.S)-1], Sort: SBool}
	}
	return sexp(SBool, "not", a)
}

func And(as ...Term) Term {
	var keep []Term
	for _, a := range as {
		if a.IsFalse() {
			return TFalse
		}
		if a.IsTrue() {
			continue
		}
		dup := false
		for _, k := range keep {
			if k.S == a.S {
				dup = true
			}
		}
		if !dup {
			keep = append(keep, a)
		}
	}
	if len(keep) == 0 {
		return TTrue
	}
	if len(keep) == 1 {
		return keep[0]
	}
	return sexp(SBool, "and", keep...)
}

func Or(as ...Term) Term {
	var keep []Term
	for _, a := range as {
		if a.IsTrue() {
			return TTrue
		}
		if a.IsFalse() {
			continue
		}
		dup := false
		for _, k := range keep {
			if k.S == a.S {
				dup = true
			}
		}
		if !dup {
			keep = append(keep, a)
		}
	}
	if len(keep) == 0 {
		return TFalse
	}
	if len(keep) == 1 {
		return keep[0]
	}
	return sexp(SBool, "or", keep...)
}

func Implies(a, b Term) Term {
	if a.IsTrue() {
		return b
	}
	if a.IsFalse() || b.IsTrue() {
		return TTrue
	}
	if b.IsFalse() {
		return Not(a)
	}
	return sexp(SBool, "=>", a, b)
}

func Ite(c, a, b Term) Term {
	if c.IsTrue() {
		return a
	}
	if c.IsFalse() {
		return b
	}
	if a.S == b.S {
		return a
	}
	if a.Sort == SBool {
		if a.IsTrue() && b.IsFalse() {
			return c
		}
		if a.IsFalse() && b.IsTrue() {
			return Not(c)
		}
	}
	return sexp(a.Sort, "ite", c, a, b)
}

func Eq(a, b Term) Term {
	if a.Sort != b.Sort {
		panic(fmt.Sprintf("Eq sort mismatch: %s:%s vs %s:%s", a.S, a.Sort, b.S, b.Sort))
	}
	if a.S == b.S {
		return TTrue
	}
	if a.C != nil && b.C != nil {
		return Bool(a.C.Cmp(b.C) == 0)
	}
	if a.B != nil && b.B != nil {
		return Bool(*a.B == *b.B)
	}
	if a.Sort == SBool {
		if b.IsTrue() {
			return a
		}
		if a.IsTrue() {
			return b
		}
		if b.IsFalse() {
			return Not(a)
		}
		if a.IsFalse() {
			return Not(b)
		}
	}
	return sexp(SBool, "=", a, b)
}

func Neq(a, b Term) Term { return Not(Eq(a, b)) }

// ---- bit-vector operations -------------------------------------------------

func bvBin(op string, a, b Term, f func(x, y *big.Int, w int) *big.Int) Term {
	if a.Sort != b.Sort {
		panic(fmt.Sprintf("%s sort mismatch: %s:%s vs %s:%s", op, a.S, a.Sort, b.S, b.Sort))
	}
	w := bvWidth(a.Sort)
	if a.C != nil && b.C != nil && f != nil {
		if r := f(a.C, b.C, w); r != nil {
			return BVLit(r, w)
		}
	}
	return sexp(a.Sort, op, a, b)
}

func BVAdd(a, b Term) Term {
	if b.C != nil && b.C.Sign() == 0 {
		return a
	}
	if a.C != nil && a.C.Sign() == 0 {
		return b
	}
	return bvBin("bvadd", a, b, func(x, y *big.Int, w int) *big.Int { return new(big.Int).Add(x, y) })
}
func BVSub(a, b Term) Term {
	if b.C != nil && b.C.Sign() == 0 {
		return a
	}
	return bvBin("bvsub", a, b, func(x, y *big.Int, w int) *big.Int { return new(big.Int).Sub(x, y) })
}
func BVMul(a, b Term) Term {
	if b.C != nil && b.C.Cmp(big.NewInt(1)) == 0 {
		return a
	}
	if a.C != nil && a.C.Cmp(big.NewInt(1)) == 0 {
		return b
	}
	if a.C == nil && b.C == nil && a.Sort == b.Sort {
		// symbolic x symbolic: printed through mulx<w>, which a query defines either as bvmul
		// (exact) or as an uninterpreted function (sound abstraction tried first: equal
		// arguments give equal products without bit-blasting a multiplier)
		w := bvWidth(a.Sort)
		return sexp(a.Sort, fmt.Sprintf("mulx%d", w), a, b)
	}
	return bvBin("bvmul", a, b, func(x, y *big.Int, w int) *big.Int { return new(big.Int).Mul(x, y) })
}
func BVAnd(a, b Term) Term {
	return bvBin("bvand", a, b, func(x, y *big.Int, w int) *big.Int { return new(big.Int).And(x, y) })
}
func BVOr(a, b Term) Term {
	return bvBin("bvor", a, b, func(x, y *big.Int, w int) *big.Int { return new(big.Int).Or(x, y) })
}
func BVXor(a, b Term) Term {
	return bvBin("bvxor", a, b, func(x, y *big.Int, w int) *big.Int { return new(big.Int).Xor(x, y) })
}
func BVNot(a Term) Term {
	w := bvWidth(a.Sort)
	if a.C != nil {
		return BVLit(new(big.Int).Xor(a.C, mask(w)), w)
	}
	return sexp(a.Sort, "bvnot", a)
}
func BVNeg(a Term) Term {
	w := bvWidth(a.Sort)
	if a.C != nil {
		return BVLit(new(big.Int).Neg(a.C), w)
	}
	return sexp(a.Sort, "bvneg", a)
}
func BVShl(a, b Term) Term {
	return bvBin("bvshl", a, b, func(x, y *big.Int, w int) *big.Int {
		if y.Cmp(big.NewInt(int64(w))) >= 0 {
			return big.NewInt(0)
		}
		return new(big.Int).Lsh(x, uint(y.Uint64()))
	})
}
func BVLshr(a, b Term) Term {
	return bvBin("bvlshr", a, b, func(x, y *big.Int, w int) *big.Int {
		if y.Cmp(big.NewInt(int64(w))) >= 0 {
			return big.NewInt(0)
		}
		return new(big.Int).Rsh(x, uint(y.Uint64()))
	})
}
func BVAshr(a, b Term) Term { return bvBin("bvashr", a, b, nil) }
func BVUDiv(a, b Term) Term {
	return bvBin("bvudiv", a, b, func(x, y *big.Int, w int) *big.Int {
		if y.Sign() == 0 {
			return nil
		}
		return new(big.Int).Div(x, y)
	})
}
func BVURem(a, b Term) Term {
	return bvBin("bvurem", a, b, func(x, y *big.Int, w int) *big.Int {
		if y.Sign() == 0 {
			return nil
		}
		return new(big.Int).Mod(x, y)
	})
}
func BVSDiv(a, b Term) Term { return bvBin("bvsdiv", a, b, nil) }
func BVSRem(a, b Term) Term { return bvBin("bvsrem", a, b, nil) }

func bvCmp(op string, a, b Term, signed bool, f func(c int) bool) Term {
	if a.Sort != b.Sort {
		panic(fmt.Sprintf("%s sort mismatch: %s:%s vs %s:%s", op, a.S, a.Sort, b.S, b.Sort))
	}
	if a.C != nil && b.C != nil {
		if signed {
			return Bool(f(signedVal(a).Cmp(signedVal(b))))
		}
		return Bool(f(a.C.Cmp(b.C)))
	}
	return sexp(SBool, op, a, b)
}
func BVUlt(a, b Term) Term { return bvCmp("bvult", a, b, false, func(c int) bool { return c < 0 }) }
func BVUle(a, b Term) Term { return bvCmp("bvule", a, b, false, func(c int) bool { return c <= 0 }) }
func BVSlt(a, b Term) Term { return bvCmp("bvslt", a, b, true, func(c int) bool { return c < 0 }) }
func BVSle(a, b Term) Term { return bvCmp("bvsle", a, b, true, func(c int) bool { return c <= 0 }) }

func Extract(hi, lo int, a Term) Term {
	w := bvWidth(a.Sort)
	if lo == 0 && hi == w-1 {
		return a
	}
	if a.C != nil {
		v := new(big.Int).Rsh(a.C, uint(lo))
		return BVLit(v.And(v, mask(hi-lo+1)), hi-lo+1)
	}
	return Term{S: fmt.Sprintf("((_ extract %d %d) %s)", hi, lo, a.S), Sort: SBV(hi - lo + 1)}
}
func ZeroExt(n int, a Term) Term {
	if n == 0 {
		return a
	}
	w := bvWidth(a.Sort)
	if a.C != nil {
		return BVLit(a.C, w+n)
	}
	return Term{S: fmt.Sprintf("((_ zero_extend %d) %s)", n, a.S), Sort: SBV(w + n)}
}
func SignExt(n int, a Term) Term {
	if n == 0 {
		return a
	}
	w := bvWidth(a.Sort)
	if a.C != nil {
		return BVLit(signedVal(a), w+n)
	}
	return Term{S: fmt.Sprintf("((_ sign_extend %d) %s)", n, a.S), Sort: SBV(w + n)}
}
func Concat(hi, lo Term) Term {
	wh, wl := bvWidth(hi.Sort), bvWidth(lo.Sort)
	if hi.C != nil && lo.C != nil {
		v := new(big.Int).Lsh(hi.C, uint(wl))
		return BVLit(v.Or(v, lo.C), wh+wl)
	}
	return Term{S: "(concat " + hi.S + " " + lo.S + ")", Sort: SBV(wh + wl)}
}

// Resize converts a bit-vector to width w (signed => sign-extend).
func Resize(a Term, w int, signed bool) Term {
	cw := bvWidth(a.Sort)
	switch {
	case cw == w:
		return a
	case cw > w:
		return Extract(w-1, 0, a)
	case signed:
		return SignExt(w-cw, a)
	default:
		return ZeroExt(w-cw, a)
	}
}

// ---- Int operations ----------------------------------------------------------

func intBin(op string, a, b Term, f func(x, y *big.Int) *big.Int) Term {
	if a.C != nil && b.C != nil && f != nil {
		if r := f(a.C, b.C); r != nil {
			return IntLit(r)
		}
	}
	return sexp(SInt, op, a, b)
}
func IAdd(a, b Term) Term {
	if b.C != nil && b.C.Sign() == 0 {
		return a
	}
	if a.C != nil && a.C.Sign() == 0 {
		return b
	}
	return intBin("+", a, b, func(x, y *big.Int) *big.Int { return new(big.Int).Add(x, y) })
}
func ISub(a, b Term) Term {
	if b.C != nil && b.C.Sign() == 0 {
		return a
	}
	return intBin("-", a, b, func(x, y *big.Int) *big.Int { return new(big.Int).Sub(x, y) })
}
func IMul(a, b Term) Term {
	return intBin("*", a, b, func(x, y *big.Int) *big.Int { return new(big.Int).Mul(x, y) })
}
func intCmp(op string, a, b Term, f func(c int) bool) Term {
	if a.C != nil && b.C != nil {
		return Bool(f(a.C.Cmp(b.C)))
	}
	return sexp(SBool, op, a, b)
}
func ILt(a, b Term) Term { return intCmp("<", a, b, func(c int) bool { return c < 0 }) }
func ILe(a, b Term) Term { return intCmp("<=", a, b, func(c int) bool { return c <= 0 }) }

// ---- arrays ------------------------------------------------------------------

func arrSorts(s string) (string, string) {
	// "(Array K V)" -> K, V ; K and V may be parenthesised
	body := s[len("(Array ") : len(s)-1]
	depth := 0
	for i, c := range body {
		switch c {
		case '(':
			depth++
		case ')':
			depth--
		case ' ':
			if depth == 0 {
				return body[:i], body[i+1:]
			}
		}
	}
	panic("bad array sort " + s)
}

func Select(a, i Term) Term {
	_, v := arrSorts(a.Sort)
	return sexp(v, "select", a, i)
}
func Store(a, i, v Term) Term { return sexp(a.Sort, "store", a, i, v) }

// ---- references ----------------------------------------------------------------
// Ref = mkref(root Int, path Path); Path = pnil | psub(Path, Int) | pelem(Path, Idx)
// Freshness is a property of the root alone, so it never needs recursion.

var TNull = raw("(mkref 0 pnil)", SRef)

func RefRoot(r Term) Term { return sexp(SInt, "rroot", r) }
func RefPath(r Term) Term { return sexp(SPath, "rpath", r) }
func MkRef(root, path Term) Term {
	return sexp(SRef, "mkref", root, path)
}
func splitRef(r Term) (Term, Term, bool) {
	// recognise a syntactic (mkref root path)
	if !strings.HasPrefix(r.S, "(mkref ") {
		return Term{}, Term{}, false
	}
	body := r.S[len("(mkref ") : len(r.S)-1]
	depth := 0
	for i, c := range body {
		switch c {
		case '(':
			depth++
		case ')':
			depth--
		case ' ':
			if depth == 0 {
				root := raw(body[:i], SInt)
				return root, raw(body[i+1:], SPath), true
			}
		}
	}
	return Term{}, Term{}, false
}
func RefSub(r Term, f int) Term {
	if root, path, ok := splitRef(r); ok {
		return MkRef(root, raw(fmt.Sprintf("(psub %s %d)", path.S, f), SPath))
	}
	return raw(fmt.Sprintf("(mkref (rroot %s) (psub (rpath %s) %d))", r.S, r.S, f), SRef)
}
func RefElem(r Term, idx Term) Term {
	if root, path, ok := splitRef(r); ok {
		return MkRef(root, raw(fmt.Sprintf("(pelem %s %s)", path.S, idx.S), SPath))
	}
	return raw(fmt.Sprintf("(mkref (rroot %s) (pelem (rpath %s) %s))", r.S, r.S, idx.S), SRef)
}

func mulPrelude(abstract bool) string {
	var sb strings.Builder
	for _, w := range []int{8, 16, 32, 64} {
		if abstract {
			fmt.Fprintf(&sb, "(declare-fun mulx%d ((_ BitVec %d) (_ BitVec %d)) (_ BitVec %d))\n", w, w, w, w)
		} else {
			fmt.Fprintf(&sb, "(define-fun mulx%d ((a (_ BitVec %d)) (b (_ BitVec %d))) (_ BitVec %d) (bvmul a b))\n", w, w, w, w)
		}
	}
	return sb.String()
}

func smtPrelude(idxSort string, logicNote string) string {
	return fmt.Sprintf(`; gocv query %s
(declare-sort Str 0)
(declare-datatypes ((Path 0)) (((pnil) (psub (psubp Path) (psubf Int)) (pelem (pelemp Path) (pelemi %s)))))
(declare-datatypes ((Ref 0)) (((mkref (rroot Int) (rpath Path)))))
`, logicNote, idxSort)
}
