module verif/tools/pdftext

go 1.23
