// pdftext: minimal text dump of a PDF's content streams, stdlib only.
//
// Purpose: the ISA manuals in /repo/docs are the oracle for the C03/C04
// specifications, and this sandbox has no PDF reader (no poppler, no python
// PDF or crypto library). The GCN3 manual is encrypted with the standard
// security handler (V4/R4, AESV2, empty user password), so this tool derives
// the document key, decrypts each stream, inflates it and prints the text
// operands of Tj/TJ operators in stream order, one line per text object.
// It is a reading aid, not part of the verification machinery.
package main

import (
	"bytes"
	"compress/zlib"
	"crypto/aes"
	"crypto/cipher"
	"crypto/md5"
	"encoding/binary"
	"encoding/hex"
	"fmt"
	"io"
	"os"
	"regexp"
	"strconv"
)

var pad = []byte{0x28, 0xBF, 0x4E, 0x5E, 0x4E, 0x75, 0x8A, 0x41, 0x64, 0x00, 0x4E, 0x56, 0xFF, 0xFA, 0x01, 0x08,
	0x2E, 0x2E, 0x00, 0xB6, 0xD0, 0x68, 0x3E, 0x80, 0x2F, 0x0C, 0xA9, 0xFE, 0x64, 0x53, 0x69, 0x7A}

// parseLiteral parses a PDF literal string starting at data[i]=='(' and
// returns the decoded bytes.
func parseLiteral(data []byte, i int) []byte {
	var out []byte
	depth := 0
	for ; i < len(data); i++ {
		c := data[i]
		switch {
		case c == '(':
			if depth > 0 {
				out = append(out, c)
			}
			depth++
		case c == ')':
			depth--
			if depth == 0 {
				return out
			}
			out = append(out, c)
		case c == '\\':
			i++
			e := data[i]
			switch e {
			case 'n':
				out = append(out, '\n')
			case 'r':
				out = append(out, '\r')
			case 't':
				out = append(out, '\t')
			case 'b':
				out = append(out, '\b')
			case 'f':
				out = append(out, '\f')
			case '\r':
				if i+1 < len(data) && data[i+1] == '\n' {
					i++
				}
			case '\n':
			default:
				if e >= '0' && e <= '7' {
					v := 0
					n := 0
					for n < 3 && i < len(data) && data[i] >= '0' && data[i] <= '7' {
						v = v*8 + int(data[i]-'0')
						i++
						n++
					}
					i--
					out = append(out, byte(v))
				} else {
					out = append(out, e)
				}
			}
		default:
			out = append(out, c)
		}
	}
	return out
}

func docKey(data []byte) []byte {
	m := regexp.MustCompile(`/Encrypt (\d+) 0 R`).FindSubmatch(data)
	if m == nil {
		return nil
	}
	objRe := regexp.MustCompile(`(?s)[\r\n]` + string(m[1]) + ` 0 obj(.*?)endobj`)
	enc := objRe.FindSubmatch(data)[1]
	o := parseLiteral(enc, bytes.Index(enc, []byte("/O("))+2)
	pm := regexp.MustCompile(`/P (-?\d+)`).FindSubmatch(enc)
	p, _ := strconv.Atoi(string(pm[1]))
	idm := regexp.MustCompile(`/ID\[<([0-9A-Fa-f]+)>`).FindSubmatch(data)
	id0, _ := hex.DecodeString(string(idm[1]))
	h := md5.New()
	h.Write(pad)
	h.Write(o[:32])
	var pb [4]byte
	binary.LittleEndian.PutUint32(pb[:], uint32(int32(p)))
	h.Write(pb[:])
	h.Write(id0)
	if bytes.Contains(enc, []byte("/EncryptMetadata false")) {
		h.Write([]byte{0xff, 0xff, 0xff, 0xff})
	}
	k := h.Sum(nil)
	for i := 0; i < 50; i++ {
		s := md5.Sum(k[:16])
		k = s[:]
	}
	return k[:16]
}

func objKey(key []byte, num, gen int) []byte {
	h := md5.New()
	h.Write(key)
	h.Write([]byte{byte(num), byte(num >> 8), byte(num >> 16), byte(gen), byte(gen >> 8)})
	h.Write([]byte("sAlT"))
	return h.Sum(nil)[:16]
}

func aesDecrypt(k, data []byte) []byte {
	if len(data) < 32 || len(data)%16 != 0 {
		return nil
	}
	blk, _ := aes.NewCipher(k)
	out := make([]byte, len(data)-16)
	cipher.NewCBCDecrypter(blk, data[:16]).CryptBlocks(out, data[16:])
	n := int(out[len(out)-1])
	if n >= 1 && n <= 16 && n <= len(out) {
		out = out[:len(out)-n]
	}
	return out
}

func inflate(b []byte) []byte {
	r, err := zlib.NewReader(bytes.NewReader(b))
	if err != nil {
		return nil
	}
	out, _ := io.ReadAll(r)
	return out
}

var textOp = regexp.MustCompile(`(?s)BT(.*?)ET`)

func dumpText(w io.Writer, content []byte) {
	for _, bt := range textOp.FindAllSubmatch(content, -1) {
		body := bt[1]
		var line []byte
		for i := 0; i < len(body); i++ {
			if body[i] == '(' {
				s := parseLiteral(body, i)
				line = append(line, s...)
				// skip to matching close paren
				depth := 0
				for ; i < len(body); i++ {
					if body[i] == '\\' {
						i++
						continue
					}
					if body[i] == '(' {
						depth++
					}
					if body[i] == ')' {
						depth--
						if depth == 0 {
							break
						}
					}
				}
			} else if body[i] == '<' && i+1 < len(body) && body[i+1] != '<' {
				j := bytes.IndexByte(body[i:], '>')
				if j > 0 {
					hs, err := hex.DecodeString(string(bytes.TrimSpace(body[i+1 : i+j])))
					if err == nil {
						line = append(line, hs...)
					}
					i += j
				}
			}
		}
		if len(bytes.TrimSpace(line)) > 0 {
			fmt.Fprintf(w, "%s\n", line)
		}
	}
}

func main() {
	data, err := os.ReadFile(os.Args[1])
	if err != nil {
		panic(err)
	}
	key := docKey(data)
	objRe := regexp.MustCompile(`(?s)(\d+) (\d+) obj(.*?)stream(\r\n|\n)`)
	w := os.Stdout
	pos := 0
	for {
		loc := objRe.FindSubmatchIndex(data[pos:])
		if loc == nil {
			break
		}
		num, _ := strconv.Atoi(string(data[pos+loc[2] : pos+loc[3]]))
		gen, _ := strconv.Atoi(string(data[pos+loc[4] : pos+loc[5]]))
		dict := data[pos+loc[6] : pos+loc[7]]
		start := pos + loc[1]
		end := bytes.Index(data[start:], []byte("endstream"))
		if end < 0 {
			break
		}
		raw := data[start : start+end]
		pos = start + end
		if bytes.Contains(dict, []byte("endobj")) {
			continue // regexp spanned objects; skip
		}
		var plain []byte
		if key != nil && !bytes.Contains(dict, []byte("/XRef")) {
			k := objKey(key, num, gen)
			for _, trim := range []int{0, 1, 2} {
				if len(raw)-trim > 0 {
					if p := aesDecrypt(k, raw[:len(raw)-trim]); p != nil {
						plain = p
						break
					}
				}
			}
		} else {
			plain = raw
		}
		if plain == nil {
			continue
		}
		if bytes.Contains(dict, []byte("FlateDecode")) {
			plain = inflate(plain)
		}
		if plain == nil || !bytes.Contains(plain, []byte("BT")) {
			continue
		}
		dumpText(w, plain)
	}
}
