#!/usr/bin/env python3
"""Generate C06 lane-independence contracts (site obligations) for the vector ALU handlers that have no
per-lane ISA contract (floating point, conversions, ...). Prints the contract text for one package.
usage: gen_lane_contracts.py <pkgdir> <receiver> <contract file> <go files...>
The text is pasted into the package's zz_contracts_verif.go (a one-off helper: the checks read only that file)."""
import re, sys
pkgdir, recv, cfile = sys.argv[1:4]
files = sys.argv[4:]
have = set(re.findall(r'^//@ func \(\*\w+\)\.(\w+)', open(cfile).read(), re.M))
out = []
def split_args(s):
    args, d, cur = [], 0, ''
    for ch in s:
        if ch in '([{': d += 1
        if ch in ')]}': d -= 1
        if ch == ',' and d == 0:
            args.append(cur.strip()); cur = ''
        else: cur += ch
    if cur.strip(): args.append(cur.strip())
    return args
def call_args(body, pos):
    d = 0; i = pos
    while True:
        if body[i] == '(': d += 1
        if body[i] == ')':
            d -= 1
            if d == 0: return body[pos+1:i]
        i += 1
for fn in files:
    src = open(fn).read()
    for m in re.finditer(r'^func \(u \*(\w+)\) (runV\w+)\(state (?:emu\.)?InstEmuState\) \{\n', src, re.M):
        name = m.group(2)
        if name in have: continue
        end = src.index('\n}\n', m.end())
        body = src[m.end():end]
        loops = len(re.findall(r'for i := 0; i < 64; i\+\+ \{', body))
        allfor = len(re.findall(r'\bfor\b', body))
        if loops == 0 or allfor != loops: continue   # dispatchers, handlers with other loops
        lines = [f'//@ func (*{m.group(1)}).{name}', '//@ property C06', '//@ requires u != nil']
        k = 0
        for c in re.finditer(r'state\.ReadOperand\(', body):
            a = split_args(call_args(body, c.end()-1))
            if len(a) == 2 and a[1] == 'i':
                lines.append(f'//@ assert-at call ReadOperand {k} lane: arg1 == i')
            k += 1
        k = 0
        for c in re.finditer(r'state\.WriteOperand\(', body):
            a = split_args(call_args(body, c.end()-1))
            if len(a) == 3 and a[1] == 'i':
                lines.append(f'//@ assert-at call WriteOperand {k} lane: arg1 == i && 0 <= i && i < 64')
                lines.append(f'//@ assert-at call WriteOperand {k} active: (old(isaexec()) >> uint(i)) & 1 == 1')
                lines.append(f'//@ assert-at call WriteOperand {k} own: loopfree(arg2)')
            k += 1
        for l in range(loops):
            lines.append(f'//@ loop {l} invariant range: 0 <= i && i <= 64')
        out.append('\n'.join(lines))
print('\n\n'.join(out))
