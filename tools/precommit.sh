#!/bin/bash
# precommit.sh : refuse to commit evidence files that come from a run on a modified tree
# (a seeded change or a mutation): every evidence file must report 0 violations and
# discharged == obligations, and /repo must be clean.
bad=0
[ -n "$(git -C /repo status --short)" ] && { echo "/repo working tree is not clean"; bad=1; }
for f in /verif/evidence/*.json; do
  python3 - "$f" <<'PY' || bad=1
import json,sys
e=json.load(open(sys.argv[1])); c=e['coverage']
if e.get('violations',0)!=0 or c['obligations']!=c['discharged']:
    print("stale evidence:", sys.argv[1], e.get('violations'), c['obligations'], c['discharged']); sys.exit(1)
PY
done
exit $bad
