#!/usr/bin/env python3
# Regenerates /verif/MANIFEST.json from the table below (kept valid at all times).
import json, subprocess
props = [json.loads(l) for l in open('/verif/properties.jsonl')]
baseline = json.load(open('/root/.vp/BASELINE.json'))["cmd"]
TB = ("trusted: go/ssa (x/tools v0.29.0) as the meaning of the source; the gocv VC generator; z3 5.1/4.8.12, cvc5; "
      "partial correctness modulo panics unless the contract says nopanic; sequential execution inside a function. ")
claimed = {
 "C02": dict(
   text=("One mode-parity mechanism is under contract: the address the timing coalescer uses for a FLAT/GLOBAL access (defaultCoalescer.readFlatAddr) equals, for every instruction, lane and register contents, "
         "base + sign-extended 13-bit offset with base = the 64-bit VGPR pair or scalar base + zero-extended 32-bit VGPR in SADDR mode, which is the formula of emu.ALUImpl.flatAddrWithScalar and of the ISA. "
         "The initial register image of a wavefront is under contract in both modes against one shared statement (/verif/spec/wfinit.gspec): emu.ComputeUnit.initWfRegs and cu.WfDispatcherImpl.initRegisters write the same scalar registers "
         "(dispatch pointer, kernel-argument pointer, ceil-divided work-group counts, work-group ids) at the same offsets and give each of the 64 lanes the row-major coordinates of its flat id (separately in v0..v2, or packed into v0 for V5 code objects). "
         "The LDS unit runs a wavefront's instruction on the shared ALU only after binding the ALU to that wavefront's own work-group LDS, and the emulator's FLAT handlers access memory only for active lanes with the lane's own address and data. "
         "The write-back of a returned vector load gives each recorded lane what the emulator's FLAT load handlers load from the same bytes (byte zero-/sign-extended, 16 bits zero-extended, or the register-count words), and a returned scalar load writes the response data to the recorded destination registers. "
         "The three places that decide the FLAT addressing mode agree: the decoder gives the address operand one register exactly when the SADDR field selects a scalar base (per architecture; decodeFLAT), which is the test of the timing coalescer, and the two emulator ALUs test the SADDR field with the same per-architecture rule. "
         "The emulator's instruction loop carries the obligation that the ALU sees the same program counter as in the timing pipeline (the address of the instruction being executed); it fails on the current code and is a recorded finding. "
         "The execution units share the emulator's ALU by construction (cu.Builder). Not under contract: the lane bookkeeping of the coalescer (which bytes belong to which lane), cache flush before copies, and the whole-program equivalence itself."),
   note=(TB + "The emulator-side address formula is transcribed into the contract, not mechanically extracted (the emulator's state interface is modelled differently under C03). Whole-program equivalence of the two modes needs program-level reasoning outside this technique. "
         "Register initialisation: mathematical integers with overflow obligations; work-group sizes <= 1024 per dimension, flat ids <= 1024, grid sizes <= 0xFFFF0000 are preconditions; the packed V5 word is compared as the same uninterpreted bit expression on both sides. "
         "Two genuine defects repaired (timing mode did not pack work-item ids for V5 code objects; timing-mode write-back of flat_load_sbyte/flat_load_ushort wrote the wrong bytes); three known findings, demonstrated on the real code in the thorough tier: timing mode reserves scalar registers for the unsupported queue pointer and private segment size, emulation does not; the emulator hands the ALU a PC that is already advanced, the timing pipeline the instruction's own address (s_getpc_b64 differs between the modes)."),
   design="5 (C02)", technique="deductive verification: WP-style VC generation over go/ssa + SMT (return-site obligation)"),
 "C03": dict(
   text=("Every scalar ALU handler of both ALUs (SOP1, SOP2, SOPC, SOPK, SOPP branches; 116 handlers) and the integer vector handlers of both ALUs (VOP2 integer/logic/shift/carry, VOP1 mov/not/bfrev, "
         "VOPC and VOP3a integer compares, VOP3a integer arithmetic, VOP3b carry forms; about 130 handlers) are verified against an ISA table "
         "transcribed from the GCN3 manual: for all operand descriptors the decoder can produce and all values of the operands, SCC, VCC, EXEC, PC, "
         "the final abstract register state equals the prescribed one and nothing else changes (vector handlers: per lane, through the lane-loop summarisation). bitops helpers carry full functional contracts. "
         "Floating-point, 16-bit, memory (SMEM/FLAT/DS) and SDWA/DPP forms are not yet under contract (see DESIGN.md)."),
   note=(TB + "Assumed: the InstEmuState interface contract (array-of-cells view of the register stores, proved for the implementers under C07 where claimed); "
         "register descriptors come from insts.Regs; inline integer constants are -16..64; SCC holds one bit; unsafe reinterpret casts in emu/util.go are bit identity. "
         "The deviations from the manual found so far (29 scalar, two dozen vector input classes) are recorded in known_findings.txt; two of them (v_med3_u32 in both ALUs) were repaired."),
   design="5 (C03)", technique="deductive verification: WP-style VC generation over go/ssa + SMT (contracts bound to an ISA table)"),
 "C04": dict(
   text=("Every per-format decoder (SOP2, SOP1, SOPC, SOPK, SOPP, VOPC, VOP1, VOP2, VOP3a, VOP3b, SMEM, FLAT, DS) and the operand decoder getOperand, "
         "plus the bit-field helpers, are under contract for all 32/64-bit instruction words: no panic, success exactly on the stated well-formedness conditions, "
         "ByteSize in {4,8} and never beyond the bytes read, every decoded field equal to the bit-field the GCN3 encoding prescribes, and only the new Inst written. "
         "The top-level layer is under contract as well: matchFormat returns the first format of the (mask-sorted) list whose encoding matches the word, lookUp the table entry of the opcode field of that format, and Decode never panics on any buffer (short buffers are reported as errors), dispatches to the decoder of the matched format and returns its result; decodeFLAT also fixes the addressing-mode rule (one address register exactly in scalar-base mode, per architecture). "
         "The inverse-to-encoding lemma (the repository has no encoder) and read-prefix independence are not stated."),
   note=(TB + "Assumed: Disassembler.decodeTables well-formedness is stated as a precondition of Decode; its inductive step is proved (addInstType keeps every entry under its own opcode in the table of its own, decodable, format), the base case and the 1038 registrations of initializeDecodeTable are not; "
         "VOP3/SDWA/DPP modifier fields are checked field by field, not against an encoder (the repository has none). Six genuine defects were repaired (fix: commits, known_findings.txt)."),
   design="5 (C04)", technique="deductive verification: WP-style VC generation over go/ssa + SMT (bit-vector field contracts per format decoder)"),
 "C07": dict(
   text=("ReadOperand/WriteOperand/ReadReg/WriteReg/ReadOperandBytes/WriteOperandBytes of the emulation wavefront and the timing wavefront are verified against one abstract "
         "register model (SGPR/VGPR cell arrays, SCC, VCC, EXEC, M0 with lo/hi halves): for every register kind, width, lane and value a write updates exactly the named cells, "
         "a read returns them, nothing else changes, and both modes implement the same view. SchedulerImpl.resetRegisterValue clears exactly the scalar and vector registers of the finishing wavefront's own allocation and leaves every other cell of the register files unchanged, and padTo8 zero-extends short reads. "
         "Cross-wavefront separation as a whole-history statement (allocations of live wavefronts never overlap) rests on the C09 reservation contracts and is not mechanised end to end."),
   note=(TB + "Assumed: register files are indexed within the per-wavefront allocation (offset preconditions taken from the dispatcher, proved under C09 when claimed); "
         "the timing register file component is modelled by the cell arrays its Read/Write contract states. One genuine defect repaired (VCCHI write mask)."),
   design="5 (C07)", technique="deductive verification: WP-style VC generation over go/ssa + SMT (two implementations against one abstract view)"),
 "C12": dict(
   text=("Step obligations of the driver's command processing: a queue's next command is started only when the queue is not already running one and is not empty (processNewCommandFromCmdQueue), and on a kernel-launch "
         "response the command leaves its queue, and the queue becomes idle, only when the last request the command was split into has been answered (processLaunchKernelReturn). "
         "Host-thread interleavings (Enqueue/Drain wake-ups, engine pause/continue) and the other response handlers are outside these contracts."),
   note=(TB + "Command bookkeeping behind the Command interface, the response-to-command lookup and the queue's Dequeue/NumCommand are external (extern declarations; GetReqs/NumCommand as pure accessors read once). "
         "Goroutine schedules cannot be decided by this technique: the concurrency half of C12 is not claimed."),
   design="5 (C12)", technique="deductive verification: WP-style VC generation over go/ssa + SMT (call-site and return obligations on the step functions)"),
 "C19": dict(
   text=("Step contracts of the page migration controller: it stays busy until the control port has accepted the completion response (sendMigrationCompleteRspToCtrlPort, processWriteDoneRspFromMemCtrl: "
         "the busy flag is untouched while write acknowledgements are counted, the completion is built exactly on the last one), and every migrated chunk is written to the memory controller that owns that chunk's own address "
         "(site obligations in processDataPullRsp); the driver hands a migration request to the GPU port only while no page is being migrated (sendMigrationReqToCP). A migration request is split into exactly pageSize/T pulls (T the controller's transfer size), pull i reading [from + i*T, from + (i+1)*T) with its data destined for to + i*T, and as many responses are awaited as pulls were made "
         "(processPageMigrationReqFromCtrlPort, mathematical integers with overflow obligations). The CP forwarding is not yet under contract."),
   note=(TB + "akita ports, the simulation clock and the address-to-port mapper (assumed a pure function of the address) are external. The split assumes the page size is a multiple of the transfer size (otherwise the code drops the tail of the page: a precondition, not checked at run time), transfer size <= 2^20, page size <= 2^30, addresses <= 2^48."),
   design="5 (C19)", technique="deductive verification: WP-style VC generation over go/ssa + SMT (pre/postconditions and call-site obligations on the step functions)"),
 "C13": dict(
   text=("The header and descriptor parsers (isV2V3Header, parseV2V3Header, parseV5KernelDescriptor, newKernelCodeObjectFromEntireTextSection) are verified against the "
         "amd_kernel_code_t and AMDHSA kernel-descriptor layouts for all byte strings: every loaded field equals the little-endian field at its offset, the 256-byte header is "
         "stripped exactly when the five-field signature holds, and the V5 rewrites are exactly the documented ones. overrideRegisterCountsFromSymbols is proved to depend only on "
         "this kernel's own .numbered_sgpr/.num_vgpr symbols (max of the rounded values, any symbol order), and findV5KernelDescriptor to return the parsed descriptor at the unique "
         "<kernel>.kd symbol's section-relative offset for any section address and symbol order. loadKernelCodeObjectFromELF hands the parsers exactly the bytes of the kernel's own symbol in the text section (site obligations), with the debug/elf file assumed well formed at the point where its symbol table exists."),
   note=(TB + "Assumed (preconditions = well-formed file): section indices valid, a symbol lies inside its section, at most one 64-byte <kernel>.kd symbol, register-count symbols <= 4096; "
         "strings are uninterpreted with cancellative concatenation; debug/elf itself is outside the verified code (extern), and the well-formedness of the file is an assume-at at the point where the symbol table exists (listed in the evidence)."),
   design="5 (C13)", technique="deductive verification: WP-style VC generation over go/ssa + SMT (byte-layout contracts, loop invariants, intermediate assertion)"),
 "C08": dict(
   text=("Under contract for all geometries (mathematical integers with an overflow obligation on every + - *): gridBuilderImpl.NextWG without a filter returns work-group coordinates in x-fastest order, "
         "each once, with current sizes equal to the clipped sizes (>= 1) and nil exactly when the cursor has left the grid; countWG without a filter equals ceil(X/wx)*ceil(Y/wy)*ceil(Z/wz); "
         "Driver.distributeWGToGPUs returns a non-decreasing range table starting at 0 and ending at or beyond the number of work-groups, and the per-GPU filter closure accepts exactly "
         "the row-major flattened ids of its range. Lane-id initialisation is under contract in both modes (emu.ComputeUnit.initWfRegs, cu.WfDispatcherImpl.initRegisters): all 64 lanes of a wavefront are visited and lane l receives the coordinates (x, y, z) with flat id = (z*SY + y)*SX + x, 0 <= x < SX, 0 <= y < SY; "
         "the work-group counts written to the scalar registers are the ceiling quotients. With a work-group filter, countWG is a complete scan: every coordinate of the grid is offered to the filter exactly once, the count goes up by one exactly for the accepted ones and stays within the grid size "
         "(that it equals the number NextWG later produces additionally needs the filter to answer the same both times; the driver's filter is a pure range test under contract). formWavefronts places every work-item in a wavefront whose first flat id is the 64-aligned base of the item's own flat id (lane = flat id - FirstWiFlatID in 0..63), and records each started wavefront with the kernel's code object and packet. Not yet under contract: NextWG/Skip with a filter, spawnWorkItems (functional), the initial EXEC mask bits."),
   note=(TB + "Assumed: fewer than 2^31 work-groups per dispatch, CU counts <= 65536, at most 4096 unified GPUs; NewWorkGroup enters NextWG through a trusted frame-only contract, formWavefronts through its (assumed) modifies clause; "
         "the explicit guard 'not all wg allocated' is kept as a run-time check (its unreachability needs a prefix-sum argument). formWavefronts is verified except for its frame (trustframe) and under the site assumption that flat ids are non-negative and items belong to the work-group; the suspect of the design phase (partial work-groups whose row pitch does not divide 64) was confirmed on the real code and repaired. The register-initialisation obligations are shared with C02 (same findings: V5 packing repaired, two SGPR-layout findings recorded)."),
   design="5 (C08)", technique="deductive verification: WP-style VC generation over go/ssa + SMT (integer mode with overflow obligations, loop invariants)"),
 "C06": dict(
   text=("For the integer vector handlers of the two ALUs that are under a per-lane ISA contract (VOP2, VOP1 mov/not/bfrev, VOPC and VOP3a compares, VOP3a arithmetic, VOP3b carry forms; see C03), lane independence and EXEC obedience follow from the contract itself: "
         "the 64-iteration lane loop is summarised by clause invariants proving that iteration i reads only lane i's operands and uniform operands, writes only lane i's destination cells "
         "and bit i of VCC/SDST, and does so only when EXEC bit i is set, with the lane result equal to a function of lane i's inputs that does not mention i. "
         "The remaining vector handlers of both ALUs (floating point, conversions, 64-bit forms: 108 handlers) carry lane-independence site obligations without a value specification: every register read in the lane loop reads the visited lane, every register write writes the visited lane, "
         "only when its EXEC bit was set at instruction start, and the written value does not depend on loop-carried variables (loopfree). The FLAT load/store handlers of both ALUs access memory only for active lanes, with the lane's own address and data, and visit all 64 lanes. "
         "DS handlers, SDWA/DPP forms and the designated cross-lane instructions (v_readfirstlane) are not under contract."),
   note=(TB + "Shares obligations with C03 (same contracts, tagged with both properties). The C03 value deviations of the v_addc/v_subb family (per-lane, not cross-lane) are outside the claim: "
         "their lanes are exempted through scope lines in known_findings.txt, listed in the evidence assumptions. "
         "For the handlers without ISA contract, the step from the site obligations to 'the lane result is a function of the lane's own operands' uses the register-file contract of C07 (a write touches exactly the cells of its lane) and is argued in DESIGN.md, not machine-checked; floating-point operations are uninterpreted functions there."),
   design="5 (C06)", technique="deductive verification: lane-loop summarisation (Houdini-filtered clause invariants with bit/cell meta-lemmas) over go/ssa + SMT"),
 "C09": dict(
   text=("Under contract: the allocation masks of a compute unit (resourceMaskImpl.nextRegion/setStatus/convertStatus/statusCount: a returned region lies inside the mask and has the requested status, updates touch exactly the named units) and unitsOccupy (round-up); "
         "FreeResourcesForWG releases, for every wavefront location, exactly the rounded-up LDS/SGPR/VGPR unit counts at the recorded offsets with status Free and forgets the work-group (site obligations); "
         "DispatcherImpl.kernelCompleted holds exactly when no work-group is waiting to be sent, none is left to place and every dispatched one has completed; partitionAlgorithm.Next books a placed work-group on the partition it was taken from and counts it once. "
         "The three searches of ReserveResourceForWG (scalar registers, LDS, wavefront-to-SIMD matching) ask the masks for a free region of the rounded-up unit count, mark exactly that region to-be-reserved before asking again, place a wavefront only on a SIMD with a free slot beyond those already used in this call, and record byte offsets that the release path converts back to the same unit offsets. "
         "The commit/rollback step (reserveResources/clearTempReservation), the other placement algorithms and the message handlers are not yet under contract."),
   note=(TB + "The masks behind their interface, the CU pool and the algorithm interface are external in the callers (extern declarations); first-fit completeness of nextRegion is not stated; message interleavings are outside the technique. The reservation contracts fix the granularities to the pool builder's values (16 scalar registers, 4 vector registers, 256 LDS bytes per unit): the scalar byte offset is computed with a hard-coded 16, so the reserve and release paths agree only for that value; region offsets returned by the masks are assumed below 2^28 (assume-at, from nextRegion's own contract)."),
   design="5 (C09)", technique="deductive verification: WP-style VC generation over go/ssa + SMT (array loop invariants, call-site obligations)"),

 "C10": dict(
   text=("The default page allocator's per-device free list (deviceMemoryStateImpl) is under contract for page sizes 2^12..2^16: registering a device appends exactly the pages of "
         "[initialAddress, initialAddress+storageSize) in ascending order (count = storageSize >> log2PageSize, each address initialAddress + k*pageSize), pop returns and removes the head, "
         "push appends at the back, nothing else changes. memoryAllocatorImpl.removePage (Free/RemovePage) is proved to drop the page from the allocator's live-page map. "
         "allocatePages records every page it creates (also for a unified multi-GPU device, whose pages come from member GPUs) on the device whose physical range contains the page, with the requested process, size and consecutive virtual addresses (site obligations at the page-table insert). "
         "Driver.FreeMemory marks the buffer freed and hands the allocator every page-aligned offset below the buffer's recorded size (so that all of its pages are unmapped and returned). "
         "Re-mapping (Remap, used by Distribute) records every virtual page on the target device with the physical page taken for it there and hands the physical page it was mapped to before back to the device that owns it. "
         "Page migration preparation (which keeps the old page alive for the copy and never frees it), the buddy allocator and the virtual-address bookkeeping are not yet under contract."),
   note=(TB + "Assumed: storage sizes are multiples of the page size and below 2^48; the akita page table is an external component (extern declarations); deviceIDByPAddr enters through a trusted contract "
         "(map iteration is not modelled). Four genuine defects repaired (stale live-page entry after Free; removeFreedBuffers; Driver.FreeMemory freed only the first page of a multi-page buffer; Remap leaked the physical pages it replaced). In the re-mapping loop the well-formedness of the device table is assumed at the owner lookup (assume-at), not carried as an invariant. Observed, not decided: page migration never frees the page it migrates away from."),
   design="5 (C10)", technique="deductive verification: WP-style VC generation over go/ssa + SMT (queue view of the free list, loop invariant with page-size case split)"),
 "C14": dict(
   text=("The two wait guards of the timing scheduler are under contract for every wavefront state: evalSWaitCnt completes exactly when both outstanding-access counters are at or below the counts the instruction asks for, "
         "and evalSEndPgm never completes (and changes nothing) while a vector or scalar memory access of the wavefront is outstanding; ScalarUnit.executeSMEMLoad splits a scalar load into fragments that tile the range and marks every fragment but the last as coalescable (the response handler decrements the counter for the unmarked one). EvaluateInternalInst removes a released work-group from both executing lists when a barrier is passed (site obligations; removeAllWfFromInternalExecuting keeps no wavefront of the released group). "
         "The three memory-response handlers of the compute unit (scalar load, vector load, vector store) match a response to the in-flight entry with the same request id, remove exactly one entry, and decrement the wavefront's outstanding counters by one exactly for the response of the last (not coalescable) request of an instruction (both counters for FLAT), and not otherwise. "
         "The emulation-mode barrier (emu.ComputeUnit.resolveBarrier, isAllWfCompleted) releases every unfinished wavefront, leaves finished ones alone and stops only if an unfinished wavefront has not reached the barrier. Completion messages are not yet under contract."),
   note=(TB + "The helpers the guards call after their decision (work-group scans, completion message, register reset, tracing) are declared external (frame-only). "
         "Two genuine defects repaired (shared with C02: sub-word FLAT load write-back; the emulator panicked at a barrier when a wavefront of the group had already ended). One known finding (demonstrated on the real scheduler in the thorough tier): wavefronts held in the internally-executing list because the barrier buffer is full are released by another wavefront's s_endpgm without leaving that list, and then wait at the passed barrier forever."),
   design="5 (C14)", technique="deductive verification: WP-style VC generation over go/ssa + SMT (pre/postconditions of the guard functions)"),
 "C15": dict(
   text=("Step contracts of the reorder buffer, for every state and message: the copies forwarded to the lower level carry the requester's address, size, PID, data and dirty mask unchanged and are addressed to the bottom unit "
         "(duplicateReadReq/duplicateWriteReq, with the akita builders inlined); bottomUp answers only the head transaction, only when its response has arrived, and retires it only after the top port accepted the response; "
         "topDown records a transaction only after the bottom port accepted its copy; after an acknowledged discard or restart no transaction is left (so no response of a discarded request can be matched). "
         "The whole-history statement (responses in acceptance order, exactly once, capacity) follows from these steps only by an argument over tick interleavings that is not mechanised here."),
   note=(TB + "akita ports, message accessors and the id generator are external (extern declarations); container/list and the akita message builders are inlined from their sources."),
   design="5 (C15)", technique="deductive verification: WP-style VC generation over go/ssa + SMT (call-site obligations on the step functions)"),
 "C16": dict(
   text=("Step obligations of the address translator, for every state and message: translate lets an access join a pending page lookup only when that lookup is unfinished and belongs to the same process, and consumes a request "
         "from the top port only after the lookup was sent (or joined); respond drops the in-flight record of a forwarded request only after the top port accepted its response; parseTranslation consumes a translation reply only after "
         "it has been recorded in its transaction and the first translated request was accepted below. The end-to-end statement (every access answered exactly once with the right physical address under all interleavings) is not mechanised."),
   note=(TB + "akita ports and message accessors are external; GetPID/GetAddress/GetRspTo are assumed to be pure accessors (extern pure). A contract whose named call site no longer exists is reported as a violation."),
   design="5 (C16)", technique="deductive verification: WP-style VC generation over go/ssa + SMT (call-site obligations on the step functions)"),
 "C17": dict(
   text=("Under contract: interleavedBankSelector.Select (the bank depends only on the address and lies in [0, numBanks)); middleware.finalizeWrite (site obligations at the two Storage.Write calls: "
         "an unmasked write hands over the request data, a masked write hands over exactly request bytes where the mask is set and the bytes just read elsewhere, for every length and mask); "
         "middleware.dispatchPending carries the order-preservation site obligation 'a request enters the bank pipeline directly only when the bank's delay queue is empty', which fails on the current code "
         "and is recorded as a known finding with a demonstration on the real component (a read overtakes an earlier write to the same address). "
         "Requests that cannot be dispatched and delayed items that cannot be released are re-queued in arrival order: each is appended, as it is visited, to the end of the one list that becomes the pending list / the bank's delay queue again, and an item handed to a pipeline is the one being visited (site obligations at the append and Accept sites of dispatchPending and tickDelayQueues). "
         "finalizeRead reads the storage once per request (converted address, requested size), answers that very request with exactly the bytes read, and removes the request from the bank's buffer only after the top port accepted the response. "
         "The whole-history statements (one response per request over all ticks, contents against a flat memory) follow from these steps only by an interleaving argument that is not mechanised."),
   note=(TB + "akita ports, pipelines, buffers, storage and address converters are external components (extern declarations: frame-only, results unconstrained; Storage.Read returns a fresh slice). "
         "Request interleavings over ticks are outside the technique; the finding's demonstration is run in the thorough tier."),
   design="5 (C17)", technique="deductive verification: WP-style VC generation over go/ssa + SMT (site obligations at call sites, loop invariant with entry-state reference)"),
 "C11": dict(
   text=("Under contract: memRangeOverlap (the interval-intersection predicate over the full uint64 domain); needFlushing (true exactly when some buffer with dirty L2 data overlaps the copy range, any number of buffers); "
         "the page-split loops of the default H2D and D2H paths and of the direct-storage H2D path: the chunks tile the source (offset + sizeLeft = length, address = base + offset in every iteration) and the site obligation at "
         "each hand-over proves that the chunk is source[offset : offset+n] (resp. the destination window), goes to page.PAddr + (addr - page.VAddr) for the page looked up for that very address, and never crosses the end of that page; "
         "the H2D path keeps the requests already awaiting transmission. The direct-storage D2H path is under contract too (chunks, per-chunk page lookup, tiling) and carries the obligation that the storage is read directly only when no overlapping buffer is marked as holding dirty L2 data; that obligation fails on the current code and is a recorded finding (the direct path never flushes). "
         "The DMA engine's completion bookkeeping is under contract for data placement only. The emulator's own access path (storageAccessorImpl.Read/Write) splits an access of any size at page boundaries: each chunk is looked up at its own virtual address, stays inside one page, goes to that page's physical address plus the in-page offset, and the chunks tile the access."),
   note=(TB + "The page table, the allocator behind its interface, message constructors, bytes/binary and tracing are external (extern declarations: frame-only, results unconstrained; constructors return fresh objects). "
         "Wrap-around of address + size is modelled as the machine computes it. One known finding (direct-storage copies ignore dirty caches; demonstrated at driver level in the thorough tier: the driver's own needFlushing rule says flush, the direct path completes without one)."),
   design="5 (C11)", technique="deductive verification: WP-style VC generation over go/ssa + SMT (loop invariants and call-site obligations)"),


 "C20": dict(
   text=("Work-conservation steps of the trace-driven model: the NVIDIA driver takes a kernel off the undispatched list and a device off the free list exactly when the port accepted the dispatch message (both lists lose their head, order kept), "
         "and a finished kernel returns the device named by the message, once, decrementing the unfinished count; the SM does the same for warps and sub-cores. The memory part of a trace line is parsed completely: a base+delta instruction receives exactly one delta per field between the base address and the trailing immediate, in order, and the immediate comes from the last field. "
         "The rest of the trace parser, the GPU/sub-core levels and termination are not under contract."),
   note=(TB + "akita ports/components and the logging library are external. Termination and exactly-once over whole runs need an argument over message interleavings that this technique does not mechanise."),
   design="5 (C20)", technique="deductive verification: WP-style VC generation over go/ssa + SMT (pre/postconditions of the step functions)"),

 "C18": dict(
   text=("Under contract: distributorImpl.Distribute (mathematical integers, page sizes 2^12..2^16): the remapped windows are consecutive, window i of the first numGPUsToUse GPUs starts at page i*numPagesPerGPU, the remainder pages follow one by one on the last GPU used, "
         "no window reaches beyond the buffer's pages and together they cover exactly numPages pages (site obligations at both Remap calls and at the return); "
         "the RDMA engine consumes a reply from the owning GPU only after the requester-side port accepted the copy (processRspFromRDMARequestOutside). The unified-device work-group ranges are proved under C08 (distributeWGToGPUs). "
         "On the request paths the engine copies a request with the same kind, address, size, data and mask (cloneReq), consumes the original from its port only after the other side's port accepted the copy, and remembers the pair (processReqFromL1, processReqFromRDMADataOutside). "
         "Multi-GPU result equivalence as a whole, page migration ordering, the destination written into the copy (set through the message's Meta accessor) and the reply path from L2 are not under contract."),
   note=(TB + "The allocator behind its interface, akita ports and the RDMA component's transaction scan are external (extern declarations)."),
   design="5 (C18)", technique="deductive verification: WP-style VC generation over go/ssa + SMT (integer mode with overflow obligations, call-site obligations)"),
}
reasons = {
 "C05": "determinism of a run is a property of goroutine schedules, Go map iteration order and process-global state across simulations; no pre/postcondition on a function of the repository states it, and the contract-reachable fragments (no map-range on an event path, no package-level mutable state) are syntactic rules rather than obligations a deductive verifier discharges",
 "C01": "subject is GPU machine code vs a host reference over the whole platform matrix; no contract on a Go function states it (its contract-reachable mechanisms are claimed under C03/C04/C06/C07/C08/C11/C13)",
}
checks = []
for pid, c in sorted(claimed.items()):
    checks.append({
      "property_id": pid,
      "quick_cmd": f"/verif/bin/gocv check -property {pid} -tier quick",
      "thorough_cmd": f"/verif/bin/gocv check -property {pid} -tier thorough",
      "evidence_file": f"/verif/evidence/{pid}.json",
      "replay_cmd_template": "cat {path}",
      "engine": "gocv",
      "level_claimed": {"category": "proof", "text": c["text"], "design_ref": c["design"]},
      "level_note": c["note"],
      "technique": c["technique"],
    })
na = []
for p in props:
    if p["id"] in claimed: continue
    na.append({"property_id": p["id"], "reason": reasons.get(p["id"], "engine subset not reached yet (build in progress); see DESIGN.md section 7")})
hooks_commits = subprocess.run("git -C /repo log --format=%h --grep='^verif hook'", shell=True, capture_output=True, text=True).stdout.split()
m = {
 "version": 1,
 "setup_cmd": "mkdir -p /verif/bin && cd /verif/gocv && cp /repo/go.sum . && GOFLAGS=-mod=mod GOPROXY=off go build -o /verif/bin/gocv .",
 "hooks": {"guard": "verif", "enable": "-tags=verif: comment-only contract files zz_contracts_verif.go (read as text by gocv; no executable code)",
           "baseline_off_cmd": baseline, "source_commits": hooks_commits, "add_only": True},
 "engines": [{"name": "gocv", "path": "/verif/gocv", "serves_properties": sorted(claimed),
              "kind_free_text": "contract-based deductive verifier for Go built here: VCs generated from go/ssa of the real functions, contracts in guarded comment files, obligations discharged by z3-new/z3/cvc5, counterexamples replayed by go test -overlay"}],
 "checks": checks,
 "notes": "See DESIGN.md. Known findings and repaired defects: /verif/known_findings.txt.",
 "not_applicable": na,
}
json.dump(m, open('/verif/MANIFEST.json', 'w'), indent=1)
print("claimed:", sorted(claimed))
