#!/usr/bin/env python3
# collect_seeds.py <prop> : copy confirmed seeds from /tmp/wt/out_<prop>/<n> to /verif/seeded/<prop>-<n>/
import json, os, re, shutil, sys
prop = sys.argv[1]
base = f"/tmp/wt/out_{prop}"
for n in sorted(os.listdir(base)):
    d = f"{base}/{n}"
    cf = f"{d}/confirm.txt"
    if not os.path.exists(cf):
        print(prop, n, "no confirmation"); continue
    t = open(cf).read()
    sec = re.split(r"^== ", t, flags=re.M)
    def part(name):
        for s in sec:
            if s.startswith(name): return s
        return ""
    without_ok = re.search(r"^ok\s", part("demo WITHOUT"), re.M) is not None and "FAIL" not in part("demo WITHOUT")
    with_fail = "FAIL" in part("demo WITH patch")
    build_ok = "build exit: 0" in part("build WITH")
    pinned = part("pinned tests WITH")
    pinned_ok = pinned != "" and "FAIL" not in pinned and "panic" not in pinned
    ok = without_ok and with_fail and build_ok and pinned_ok
    print(prop, n, "confirmed" if ok else f"NOT confirmed (without_ok={without_ok} with_fail={with_fail} build={build_ok} pinned={pinned_ok})")
    if not ok: continue
    dst = f"/verif/seeded/{prop}-{n}"
    os.makedirs(dst, exist_ok=True)
    shutil.copy(f"{d}/patch.diff", dst)
    shutil.copy(f"{d}/demo_test.go", f"{dst}/demo_test.go.txt")
    meta = json.load(open(f"{d}/meta.json"))
    meta["confirmed_by_me"] = {
        "how": "tools/confirm_seed.sh in a scratch worktree of /repo: demo run without the patch (pass), patch applied, go build ./amd/... ./nvidia/... (ok), demo with the patch (fail), pinned test packages with the patch (all ok), patch reverted",
        "log": t[-3000:],
    }
    json.dump(meta, open(f"{dst}/meta.json", "w"), indent=1)
