#!/bin/bash
# try_seed.sh <patch.diff> <property> : apply a seeded change to /repo, run the check, undo.
P=$1; PROP=$2
cd /repo && git apply $P || { echo "patch does not apply"; exit 2; }
/verif/bin/gocv check -property $PROP -tier quick > /tmp/try_seed.out 2>&1; RC=$?
git -C /repo checkout -- .
grep -E "VIOLATION|^property" /tmp/try_seed.out | head -8
echo "exit=$RC"
