#!/bin/bash
# confirm_seed.sh <seed_dir> <scratch_worktree> : verify a seeded change independently.
# - builds with the patch, runs the demo with and without the patch (through an overlay that hides
#   the package's own test files), runs the pinned tests that execute the touched code with the patch.
set -u
SD=$1; WT=$2
export GOFLAGS=-mod=mod GOPROXY=off
cd $WT && git checkout -q -- . && git clean -fdq -e zz_contracts_verif.go 2>/dev/null
OUT=$SD/confirm.txt; : > $OUT
PKG=$(grep -m1 '^+++ b/' $SD/patch.diff | sed 's|+++ b/||; s|/[^/]*$||')
DEMO_PKG=$(python3 - <<PY
import json,re,sys
ov=json.load(open("$SD/ov.json")) if __import__('os').path.exists("$SD/ov.json") else None
if ov:
    for k,v in ov["Replace"].items():
        if v and "demo" in v:
            print(re.sub(r'^.*?/(amd|nvidia)/', r'\1/', k).rsplit('/',1)[0]); sys.exit()
print("$PKG")
PY
)
RUNNAME=$(grep -h -o 'func Test[A-Za-z0-9_]*' $SD/demo_test.go | sed 's/func //' | paste -sd'|')
echo "patch package: $PKG demo package: $DEMO_PKG demo test: $RUNNAME" >> $OUT
mk_ov() { # overlay hiding existing tests of demo package, adding demo
python3 - <<PY
import json,glob
d="$WT/$DEMO_PKG"
rep={d+"/zz_seed_demo_test.go":"$SD/demo_test.go"}
for f in glob.glob(d+"/*_test.go"): rep[f]=""
json.dump({"Replace":rep},open("$SD/confirm_ov.json","w"))
PY
}
mk_ov
run_demo() { (cd $WT && go test -overlay $SD/confirm_ov.json -vet=off -count=1 -timeout 300s -run "$RUNNAME" ./$DEMO_PKG/ 2>&1 | tail -15); }
echo "== demo WITHOUT patch" >> $OUT; run_demo >> $OUT
git -C $WT apply $SD/patch.diff || { echo "PATCH DOES NOT APPLY" >> $OUT; exit 1; }
echo "== build WITH patch" >> $OUT; (cd $WT && go build ./amd/... ./nvidia/... 2>&1 | tail -5) >> $OUT; echo "build exit: $?" >> $OUT
echo "== demo WITH patch" >> $OUT; run_demo >> $OUT
if [ "${3:-}" = "suite" ]; then
 echo "== pinned tests WITH patch" >> $OUT
 PK="./amd/bitops/ ./amd/emu/cdna3/ ./amd/insts/ ./amd/kernels/ ./amd/timing/cp/internal/resource/ ./amd/benchmarks/dnn/tensor/ ./amd/benchmarks/dnn/layers/ ./amd/benchmarks/dnn/gputensor/"
 case $PKG in nvidia*) PK="./nvidia/benchmark/ ./nvidia/platform/ ./nvidia/tracereader/";; esac
 (cd $WT && go test -vet=off -count=1 -timeout 30m $PK 2>&1 | tail -12) >> $OUT
fi
git -C $WT checkout -q -- .
echo "== done" >> $OUT
