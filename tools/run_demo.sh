#!/bin/bash
# run_demo.sh <pkgdir relative to /repo> <demo file> <TestRegex> : run a demonstration test against the real
# code of /repo through a build overlay (nothing is written into the repository; the package's own test files,
# whose generated mocks are git-ignored, are replaced by empty files).
PKG=$1; DEMO=$2; RUN=$3
T=$(mktemp -d)
trap 'rm -rf $T' EXIT
PK=$(head -1 $DEMO | awk '{print $2}')
echo "package $PK" > $T/empty.go
{
  echo '{"Replace":{'
  for f in /repo/$PKG/*_test.go; do [ -e "$f" ] && echo "\"$f\":\"$T/empty.go\","; done
  echo "\"/repo/$PKG/zz_demo_test.go\":\"$DEMO\"}}"
} > $T/ov.json
cd /repo && GOFLAGS=-mod=mod GOPROXY=off go test -overlay $T/ov.json -vet=off -count=1 -timeout 120s -run "$RUN" -v ./$PKG/ 2>&1 | grep -v "^=== RUN" | tail -30
