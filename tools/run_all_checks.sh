#!/bin/bash
# run_all_checks.sh [-nocache] : every claimed check on the unchanged tree (restores the evidence files).
for p in $(jq -r '.checks[].property_id' /verif/MANIFEST.json); do
  /verif/bin/gocv check -property $p -tier quick "$@" 2>&1 | grep -v "^KNOWN" | tail -1
done
