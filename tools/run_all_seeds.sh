#!/bin/bash
# run_all_seeds.sh : apply every seeded change in turn, run the check of its property, record the outcome.
out=/verif/seeded/RESULTS.txt
: > $out
for d in /verif/seeded/C*-*; do
  id=$(basename $d); prop=${id%-*}
  [ -f $d/patch.diff ] || continue
  if ! jq -e --arg p "$prop" '.checks[] | select(.property_id==$p)' /verif/MANIFEST.json >/dev/null; then echo "$id no-check" >> $out; continue; fi
  res=$(bash /verif/tools/try_seed.sh $d/patch.diff $prop 2>&1)
  viol=$(echo "$res" | grep -c "^VIOLATION")
  first=$(echo "$res" | grep -m1 "^VIOLATION" | sed 's/.*replay=//' | sed 's|/verif/replay/[^/]*/||')
  if echo "$res" | grep -q "patch does not apply"; then echo "$id patch-does-not-apply" >> $out; else echo "$id violations=$viol $first" >> $out; fi
done
git -C /repo checkout -- . 2>/dev/null
echo done >> $out
