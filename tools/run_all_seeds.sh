#!/bin/bash
# run_all_seeds.sh [seed-id ...] : the must-fail corpus. Every seeded change (or only the named ones) is applied
# in turn to a scratch worktree of /repo's HEAD (never to /repo itself), the check of its property is run on that
# worktree with its own copy of gocv, and the outcome is recorded in /verif/seeded/RESULTS.txt (with ids given:
# only their lines are replaced). The worktree is removed afterwards.
WT=/tmp/selftest_wt
BIN=/tmp/selftest_gocv
out=/verif/seeded/RESULTS.txt
git -C /repo worktree remove --force $WT 2>/dev/null
git -C /repo worktree add -q --detach $WT HEAD || exit 2
cp /verif/bin/gocv $BIN
# a private copy of the check's inputs: evidence, replay files and verdict cache of the sweep stay out of /verif
SV=/tmp/selftest_verif
rm -rf $SV; mkdir -p $SV
cp -r /verif/spec /verif/known_findings.txt /verif/findings $SV/ 2>/dev/null
[ -d /verif/.cache ] && cp -r /verif/.cache $SV/.cache
if [ $# -eq 0 ]; then
  : > $out
  dirs=$(ls -d /verif/seeded/C*-*)
else
  dirs=""
  for id in "$@"; do dirs="$dirs /verif/seeded/$id"; sed -i "/^$id /d; /^done$/d" $out; done
fi
for d in $dirs; do
  id=$(basename $d); prop=${id%-*}
  [ -f $d/patch.diff ] || continue
  if ! jq -e --arg p "$prop" '.checks[] | select(.property_id==$p)' /verif/MANIFEST.json >/dev/null; then echo "$id no-check" >> $out; continue; fi
  if ! git -C $WT apply $d/patch.diff 2>/dev/null; then echo "$id patch-does-not-apply" >> $out; continue; fi
  res=$($BIN check -property $prop -tier quick -repo $WT -verif $SV 2>&1)
  git -C $WT checkout -q -- .
  viol=$(echo "$res" | grep -c "^VIOLATION")
  first=$(echo "$res" | grep -m1 "^VIOLATION" | sed 's/.*replay=//' | sed 's|/tmp/selftest_verif/replay/[^/]*/||; s|/verif/replay/[^/]*/||')
  echo "$id violations=$viol $first" >> $out
done
git -C /repo worktree remove --force $WT
rm -rf $BIN $SV
sort -o $out $out
echo "HEAD $(git -C /repo rev-parse --short HEAD) $(date -u +%FT%TZ)" >> $out
